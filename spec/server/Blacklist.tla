------------------------------ MODULE Blacklist ------------------------------
(* Property C19: a blacklisted address never receives content.

   Part 1 is the property itself: Decide(mode, list, peer, xff) is the set of outcomes the property
   text allows for one request (a singleton wherever the text speaks, two elements where it is
   silent).  It is written from the statement, not from the Rust code.

   Part 2 is a model of what humphrey-server does with a connection, one action per decision point
   of the code:
     App::run accept loop            -> Cli_Connect, Srv_VerifyConnection (server.rs verify_connection)
     Request::from_stream            -> Srv_Parse   (humphrey/src/http/address.rs Address::from_headers)
     inner_request_handler           -> Srv_Route   (match route.route_type)
     file_handler / directory_handler/ redirect_handler -> Srv_*_Blacklist (static.rs blacklist_check)
     proxy_handler                   -> Srv_Proxy_Blacklist (the inline copy of the check in proxy.rs)
     cache_check                     -> Srv_File_CacheCheck, Srv_Dir_CacheCheck
     inner_file_handler              -> Srv_InnerFile (reads the file, fills the cache)
     redirect / upstream call        -> Srv_Redirect_Serve, Srv_Proxy_Upstream
     client_handler loop             -> Srv_Respond, Cli_Close (keep-alive: several requests per connection)
   Several connections (Conns) are handled concurrently by the thread pool; the only state they
   share is the configuration (read-only) and the file cache.

   Dev switches named deviations.  Two of them describe the code as it was found:
     ForbiddenTrustsXff - the handler check looked at request.address.origin_addr only, so a listed
                          peer sending `X-Forwarded-For: <unlisted>` was served in forbidden mode
                          (repaired in /repo: the peer and the proxies are checked as well)
     XffUntrimmed       - Address::from_headers parses the comma-separated entries without trimming,
                          so an entry written with a space after the comma is skipped
                          (repaired in /repo by the C02 work: entries are trimmed)
     MappedPeerUnmatched- addresses were compared by representation: an IPv4 client of a dual-stack
                          listener appears as ::ffff:a.b.c.d, equal to no plainly written IPv4 list entry
                          (and a plain IPv4 client is equal to no entry written in mapped form), so a listed
                          client was neither dropped nor refused (repaired in /repo: canonical forms)
   the others are plausible regressions used to show that the invariants are not vacuous; among them
     MappedListEntryUnmatched - only the incoming address is brought to canonical form, the list entries
                          are not, so an entry written as ::ffff:a.b.c.d matches nobody (a seeded change
                          the first version of this check missed: list entries had one representation)
     XffNameCaseSensitive - the field is only found under the exact spelling X-Forwarded-For. *)
EXTENDS Naturals, Sequences, FiniteSets, TLC

CONSTANTS
  Addrs,     \* the addresses of the model: canonical texts of IP addresses (strings)
  Peers,     \* \subseteq Addrs: the source addresses clients connect from
  V4Addrs,   \* \subseteq Addrs: the IPv4 addresses (only they have an IPv4-mapped IPv6 form ::ffff:a.b.c.d)
  Duals,     \* \subseteq BOOLEAN, offered to Init: TRUE = the server listens on a dual-stack address ("::"),
             \* so the peer_addr() of an IPv4 client is its IPv4-mapped form
  NameCases, \* \subseteq BOOLEAN, offered to requests: TRUE = the field NAME is not spelt `X-Forwarded-For` but in
             \* another case (x-forwarded-for as HTTP/2 gateways emit it, X-FORWARDED-FOR, x-Forwarded-for)
  ListForms, \* \subseteq BOOLEAN, offered to Init: TRUE = the IPv4 entries of the blacklist file are written in
             \* IPv4-mapped form (::ffff:127.0.0.2 or ::ffff:7f00:2) - still entries naming those addresses
  Garbage,   \* X-Forwarded-For entries that are not IP addresses (strings, disjoint from Addrs)
  Lists,     \* the blacklists offered to Init: a set of subsets of Addrs
  MaxXff,    \* maximal number of entries in an X-Forwarded-For value
  Uris,      \* abstract request targets inside a route (cache keys are <<route type, uri>>)
  Conns,     \* connection slots served concurrently
  Dev        \* deviations switched on

HistoricalDevs == {"ForbiddenTrustsXff", "XffUntrimmed", "MappedPeerUnmatched"}
MutantDevs == {"CacheBeforeBlacklist", "ProxyUnchecked", "RedirectUnchecked", "OnlyProxiesChecked",
               "NoConnCondition", "IgnoresXff", "BlockSkipsHandlerCheck", "MappedListEntryUnmatched",
               "XffNameCaseSensitive"}
DevNames == HistoricalDevs \cup MutantDevs

ASSUME /\ Dev \subseteq DevNames
       /\ Peers \subseteq Addrs
       /\ V4Addrs \subseteq Addrs
       /\ Duals \subseteq BOOLEAN /\ ListForms \subseteq BOOLEAN /\ NameCases \subseteq BOOLEAN
       /\ Garbage \cap Addrs = {}
       /\ \A l \in Lists : l \subseteq Addrs

Modes      == {"block", "forbidden"}
RouteTypes == {"file", "directory", "proxy", "redirect"}
Cacheable  == {"file", "directory"}
Results    == {"Dropped", "Forbidden403", "Served"}

(***************************************************************************)
(* X-Forwarded-For values.  An entry is a token and a flag saying whether  *)
(* it is written with optional white space (blanks, tabs; RFC 7230 OWS)    *)
(* around it, i.e. after the preceding comma and/or before the next one;   *)
(* the first entry never has any (the request parser strips the leading    *)
(* blanks of the value).  A token that is not an IP address (Garbage)      *)
(* stands for: a word, the empty entry (so `,` and a blank-only value are  *)
(* lists of garbage), an out-of-range or short dotted form, digits from    *)
(* other scripts.  How the header NAME is spelt (lower/UPPER/Mixed case),  *)
(* where the field sits among 0..90 other fields and how the blacklist     *)
(* FILE is laid out (order, duplicates, padding entries nobody uses, CRLF, *)
(* missing final newline, spelling of IPv6 entries, `mode` omitted for the *)
(* default) are projections chosen by the harness: the list is a SET of    *)
(* addresses and the header is a field, so none of this may matter.        *)
(***************************************************************************)
Entry     == [a : Addrs \cup Garbage, sp : BOOLEAN]
NoXff     == [present |-> FALSE, nc |-> FALSE, es |-> <<>>]
XffOfLen(k) == { [present |-> TRUE, nc |-> b, es |-> s] : s \in { s \in [1..k -> Entry] : ~s[1].sp }, b \in NameCases }
XffValues(n) == {NoXff} \cup UNION { XffOfLen(k) : k \in 1..n }
AllXff == XffValues(MaxXff)      \* constant: evaluated once by TLC

Range(s) == { s[i] : i \in 1..Len(s) }
Max(S)   == CHOOSE m \in S : \A n \in S : n <= m

(***************************************************************************)
(* Part 1.  The property.                                                  *)
(***************************************************************************)
IsAddr(e)  == e.a \in Addrs
AddrIdx(x) == { i \in 1..Len(x.es) : IsAddr(x.es[i]) }
\* every address the header names, and the one the request is made on behalf of: the last listed
\* address (pinned by test_proxied_request_from_stream and by C02), the peer when there is none
Named(x)           == { x.es[i].a : i \in AddrIdx(x) }
OnBehalfOf(peer, x) == IF AddrIdx(x) = {} THEN peer ELSE x.es[Max(AddrIdx(x))].a

Decide(mode, list, peer, x) ==
  IF peer \in list
  THEN \* "a client connecting from that address never receives content ... whatever headers it sends"
       IF mode = "block" THEN {"Dropped"} ELSE {"Forbidden403"}
  ELSE IF OnBehalfOf(peer, x) \in list
  THEN \* "forwarded by an unlisted peer on behalf of a listed address ... likewise answered 403"
       {"Forbidden403"}
  ELSE IF Named(x) \cap list # {}
  THEN \* an intermediate proxy is listed, peer and origin are not: the statement is silent; either
       {"Forbidden403", "Served"}
  ELSE \* "clients whose own and forwarded addresses are all unlisted are served normally"
       {"Served"}

\* Several X-Forwarded-For lines in one request.  The statement does not say which of them speaks (RFC 7230
\* 3.2.2 reads them as one comma-joined list, Humphrey's Headers::get takes the first line): every reading is
\* accepted - each line alone and the joined list.  For a listed peer all readings agree (Lines_ListedStrict).
Joined(x1, x2) == [present |-> x1.present \/ x2.present, nc |-> FALSE, es |-> x1.es \o x2.es]
DecideLines(mode, list, peer, x1, x2) ==
  IF ~x2.present THEN Decide(mode, list, peer, x1)
  ELSE Decide(mode, list, peer, x1) \cup Decide(mode, list, peer, x2) \cup Decide(mode, list, peer, Joined(x1, x2))

(***************************************************************************)
(* Part 2.  The code.  Decision functions first (parametrised by the       *)
(* deviation set D so that generation can evaluate single deviations),     *)
(* then the state machine that uses them with D = Dev.                     *)
(***************************************************************************)
\* Representations.  An IPv4 address has two: plain and IPv4-mapped.  Occurrences in X-Forwarded-For are
\* plain here; the peer's is mapped iff the listener is dual-stack; the list's IPv4 entries are mapped iff
\* cf.lm.  The property is about addresses, so the ideal comparison ignores the representation
\* (is_blacklisted compares to_canonical() of both sides); the two deviations do not.
PeerMapped(cf, peer) == cf.dual /\ peer \in V4Addrs
Match(D, cf, a, mapped) ==
  LET v4 == a \in V4Addrs IN
  IF a \notin cf.list THEN FALSE
  ELSE IF "MappedListEntryUnmatched" \in D /\ v4 /\ cf.lm THEN FALSE   \* list side not canonicalised
  ELSE IF "MappedPeerUnmatched" \in D /\ v4 THEN mapped = cf.lm        \* compared as written
  ELSE TRUE

\* IpAddr::from_str on one entry of split(',')
Parsable(D, e) == IsAddr(e) /\ (("XffUntrimmed" \in D) => ~e.sp)

\* Address::from_headers: origin = last parsable entry, proxies = the earlier ones followed by the peer;
\* no header or nothing parsable: origin = peer, no proxies
FromHeaders(D, peer, x) ==
  LET ps == SelectSeq(x.es, LAMBDA e : Parsable(D, e))
      n  == Len(ps)
      unseen == "XffNameCaseSensitive" \in D /\ x.nc     \* headers.get("X-Forwarded-For") compared case-sensitively
  IN IF ~x.present \/ n = 0 \/ "IgnoresXff" \in D \/ unseen THEN [origin |-> peer, proxies |-> <<>>]
     ELSE [origin |-> ps[n].a, proxies |-> Append([i \in 1..(n - 1) |-> ps[i].a], peer)]

\* server.rs verify_connection: TRUE = the connection is handed to the thread pool
VerifyConnection(D, cf, peer) ==
  \/ "NoConnCondition" \in D
  \/ ~(cf.mode = "block" /\ Match(D, cf, peer, PeerMapped(cf, peer)))

\* static.rs blacklist_check / proxy.rs inline check on the parsed address `ad`: AppState::is_blacklisted on
\* the origin and on every proxy.  The socket peer is the last proxy, or the origin when there are none.
BlacklistHit(D, cf, ad, peer) ==
  LET n  == Len(ad.proxies)
      pm == PeerMapped(cf, peer)
      originHit == Match(D, cf, ad.origin, IF n = 0 THEN pm ELSE FALSE)
      proxyHit  == \E i \in 1..n : Match(D, cf, ad.proxies[i], IF i = n THEN pm ELSE FALSE)
  IN IF "BlockSkipsHandlerCheck" \in D /\ cf.mode = "block" THEN FALSE
     ELSE IF "OnlyProxiesChecked" \in D THEN proxyHit
     ELSE IF "ForbiddenTrustsXff" \in D THEN originHit
     ELSE originHit \/ proxyHit

HandlerChecks(D, rt) == ~( \/ ("ProxyUnchecked" \in D /\ rt = "proxy")
                           \/ ("RedirectUnchecked" \in D /\ rt = "redirect") )

\* the outcome of one request as a function (what the state machine below computes step by step;
\* Inv_ModelFn states the equality)
Model(D, cf, peer, x, rt, warm) ==
  IF ~VerifyConnection(D, cf, peer) THEN "Dropped"
  ELSE LET ad == FromHeaders(D, peer, x) IN
       IF "CacheBeforeBlacklist" \in D /\ rt \in Cacheable /\ cf.cache /\ warm THEN "Served"
       ELSE IF HandlerChecks(D, rt) /\ BlacklistHit(D, cf, ad, peer) THEN "Forbidden403"
       ELSE "Served"

(***************************************************************************)
(* State                                                                   *)
(***************************************************************************)
VARIABLES
  cfg,      \* [mode, list, cache, dual, lm]: the configuration file (and how its list is written); fixed after Init
  cached,   \* set of <<route type, uri>> present in the file cache
  c         \* per connection slot: [st, peer, pc, x, rt, uri, warm, ad, out]
vars == <<cfg, cached, c>>

NoAddr == [origin |-> "", proxies |-> <<>>]
Fresh  == [st |-> "none", peer |-> "", pc |-> "idle", x |-> NoXff, rt |-> "", uri |-> "",
           warm |-> FALSE, ad |-> NoAddr, out |-> "none"]

Cfgs == [mode : Modes, list : Lists, cache : BOOLEAN, dual : Duals, lm : ListForms]

ConnStates == {"none", "accepting", "open", "dropped"}
BlPcs    == {"file_bl", "dir_bl", "redir_bl", "proxy_bl"}
CachePcs == {"file_cache", "dir_cache"}
ServePcs == {"inner_file", "redir_serve", "proxy_upstream"}
Pcs      == {"idle", "parse", "route", "respond"} \cup BlPcs \cup CachePcs \cup ServePcs

TypeOK ==
  /\ cfg \in Cfgs
  /\ cached \subseteq (Cacheable \X Uris)
  /\ \A k \in Conns :
       /\ c[k].st \in ConnStates
       /\ c[k].pc \in Pcs
       /\ c[k].out \in Results \cup {"none"}
       /\ c[k].st # "none" => c[k].peer \in Peers
       /\ c[k].pc # "idle" => c[k].rt \in RouteTypes /\ c[k].uri \in Uris /\ c[k].st = "open"

Init == /\ cfg \in Cfgs
        /\ cached = {}
        /\ c = [k \in Conns |-> Fresh]

Set(k, r) == c' = [c EXCEPT ![k] = r]

(***************************************************************************)
(* Actions                                                                 *)
(***************************************************************************)
\* a client connects from source address p; the kernel completes the handshake
Cli_Connect(k, p) ==
  /\ c[k].st = "none"
  /\ Set(k, [Fresh EXCEPT !.st = "accepting", !.peer = p])
  /\ UNCHANGED <<cfg, cached>>

\* accept loop: (self.connection_condition)(&mut stream, state) - a refused stream is dropped
Srv_VerifyConnection(k) ==
  /\ c[k].st = "accepting"
  /\ IF VerifyConnection(Dev, cfg, c[k].peer)
     THEN Set(k, [c[k] EXCEPT !.st = "open"])
     ELSE Set(k, [c[k] EXCEPT !.st = "dropped", !.out = "Dropped"])
  /\ UNCHANGED <<cfg, cached>>

\* the client reads EOF / reset before any byte and gives up
Cli_SeesDrop(k) ==
  /\ c[k].st = "dropped"
  /\ Set(k, Fresh)
  /\ UNCHANGED <<cfg, cached>>

\* the client writes one request for a routed target; `warm` records whether the target is cached now
Cli_Request(k) ==
  /\ c[k].st = "open" /\ c[k].pc = "idle"
  /\ \E x \in AllXff, rt \in RouteTypes, u \in Uris :
       Set(k, [c[k] EXCEPT !.pc = "parse", !.x = x, !.rt = rt, !.uri = u,
                           !.warm = (<<rt, u>> \in cached), !.out = "none"])
  /\ UNCHANGED <<cfg, cached>>

\* Request::from_stream: Address::from_headers(&headers, peer)
Srv_Parse(k) ==
  /\ c[k].pc = "parse"
  /\ Set(k, [c[k] EXCEPT !.pc = "route", !.ad = FromHeaders(Dev, c[k].peer, c[k].x)])
  /\ UNCHANGED <<cfg, cached>>

CacheFirst == "CacheBeforeBlacklist" \in Dev

\* inner_request_handler: match route.route_type
Srv_Route(k) ==
  /\ c[k].pc = "route"
  /\ Set(k, [c[k] EXCEPT !.pc = CASE c[k].rt = "file"      -> IF CacheFirst THEN "file_cache" ELSE "file_bl"
                                  [] c[k].rt = "directory" -> IF CacheFirst THEN "dir_cache" ELSE "dir_bl"
                                  [] c[k].rt = "redirect"  -> "redir_bl"
                                  [] c[k].rt = "proxy"     -> "proxy_bl"])
  /\ UNCHANGED <<cfg, cached>>

\* blacklist_check(&request, state): Some(403) or None
Check(k, pass) ==
  /\ IF HandlerChecks(Dev, c[k].rt) /\ BlacklistHit(Dev, cfg, c[k].ad, c[k].peer)
     THEN Set(k, [c[k] EXCEPT !.pc = "respond", !.out = "Forbidden403"])
     ELSE Set(k, [c[k] EXCEPT !.pc = pass])
  /\ UNCHANGED <<cfg, cached>>

Srv_File_Blacklist(k)     == c[k].pc = "file_bl"  /\ Check(k, IF CacheFirst THEN "inner_file" ELSE "file_cache")
Srv_Dir_Blacklist(k)      == c[k].pc = "dir_bl"   /\ Check(k, IF CacheFirst THEN "inner_file" ELSE "dir_cache")
Srv_Redirect_Blacklist(k) == c[k].pc = "redir_bl" /\ Check(k, "redir_serve")
Srv_Proxy_Blacklist(k)    == c[k].pc = "proxy_bl" /\ Check(k, "proxy_upstream")

\* cache_check(&request, state, host): a hit answers 200 from the cache
CacheCheck(k, miss) ==
  /\ IF cfg.cache /\ <<c[k].rt, c[k].uri>> \in cached
     THEN Set(k, [c[k] EXCEPT !.pc = "respond", !.out = "Served"])
     ELSE Set(k, [c[k] EXCEPT !.pc = miss])
  /\ UNCHANGED <<cfg, cached>>

Srv_File_CacheCheck(k) == c[k].pc = "file_cache" /\ CacheCheck(k, IF CacheFirst THEN "file_bl" ELSE "inner_file")
Srv_Dir_CacheCheck(k)  == c[k].pc = "dir_cache"  /\ CacheCheck(k, IF CacheFirst THEN "dir_bl" ELSE "inner_file")

\* inner_file_handler: read the file, cache.set(uri, host, contents) under the write lock, 200
Srv_InnerFile(k) ==
  /\ c[k].pc = "inner_file"
  /\ cached' = IF cfg.cache THEN cached \cup {<<c[k].rt, c[k].uri>>} ELSE cached
  /\ Set(k, [c[k] EXCEPT !.pc = "respond", !.out = "Served"])
  /\ UNCHANGED cfg

\* redirect_handler tail: 301 + Location
Srv_Redirect_Serve(k) ==
  /\ c[k].pc = "redir_serve"
  /\ Set(k, [c[k] EXCEPT !.pc = "respond", !.out = "Served"])
  /\ UNCHANGED <<cfg, cached>>

\* proxy_handler tail: select_target, proxy_request, relay the upstream's response
Srv_Proxy_Upstream(k) ==
  /\ c[k].pc = "proxy_upstream"
  /\ Set(k, [c[k] EXCEPT !.pc = "respond", !.out = "Served"])
  /\ UNCHANGED <<cfg, cached>>

\* client_handler: response written, loop for the next request (keep-alive)
Srv_Respond(k) ==
  /\ c[k].pc = "respond"
  /\ Set(k, [Fresh EXCEPT !.st = "open", !.peer = c[k].peer])
  /\ UNCHANGED <<cfg, cached>>

Cli_Close(k) ==
  /\ c[k].st = "open" /\ c[k].pc = "idle"
  /\ Set(k, Fresh)
  /\ UNCHANGED <<cfg, cached>>

SrvStep(k) ==
  \/ Srv_VerifyConnection(k) \/ Srv_Parse(k) \/ Srv_Route(k)
  \/ Srv_File_Blacklist(k) \/ Srv_Dir_Blacklist(k) \/ Srv_Redirect_Blacklist(k) \/ Srv_Proxy_Blacklist(k)
  \/ Srv_File_CacheCheck(k) \/ Srv_Dir_CacheCheck(k)
  \/ Srv_InnerFile(k) \/ Srv_Redirect_Serve(k) \/ Srv_Proxy_Upstream(k) \/ Srv_Respond(k)

CliStep(k) ==
  \/ \E p \in Peers : Cli_Connect(k, p)
  \/ Cli_SeesDrop(k)
  \/ Cli_Request(k)
  \/ Cli_Close(k)

Next == \E k \in Conns : SrvStep(k) \/ CliStep(k)

Spec == Init /\ [][Next]_vars /\ \A k \in Conns : WF_vars(SrvStep(k))

(***************************************************************************)
(* Properties                                                              *)
(***************************************************************************)
Answered(k) == c[k].pc = "respond"
Listed(a)   == a \in cfg.list

\* C19 as a whole: every outcome is one the statement allows
Inv_Decide ==
  \A k \in Conns :
    /\ Answered(k) => c[k].out \in Decide(cfg.mode, cfg.list, c[k].peer, c[k].x)
    /\ c[k].st = "dropped" => "Dropped" \in Decide(cfg.mode, cfg.list, c[k].peer, NoXff)

\* ... and its clauses one by one.
\* a listed peer is never served, at any point of any request, whatever X-Forwarded-For says
Inv_ListedPeerNeverServed ==
  \A k \in Conns : (c[k].st # "none" /\ Listed(c[k].peer)) =>
     /\ c[k].out # "Served"
     /\ c[k].pc \notin ServePcs \cup CachePcs
\* block mode: the connection of a listed peer is never read from
Inv_BlockNeverRead ==
  \A k \in Conns : (c[k].st # "none" /\ cfg.mode = "block" /\ Listed(c[k].peer)) =>
     c[k].st \in {"accepting", "dropped"}
\* forbidden mode: every request of a listed peer is answered 403
Inv_ForbiddenAlways403 ==
  \A k \in Conns : (Answered(k) /\ cfg.mode = "forbidden" /\ Listed(c[k].peer)) => c[k].out = "Forbidden403"
\* forwarded on behalf of a listed address by an unlisted peer: 403 in both modes
Inv_ForwardedListed403 ==
  \A k \in Conns : (Answered(k) /\ ~Listed(c[k].peer) /\ Listed(OnBehalfOf(c[k].peer, c[k].x))) =>
     c[k].out = "Forbidden403"
\* nothing listed: served normally
Inv_CleanServed ==
  \A k \in Conns : (Answered(k) /\ ~Listed(c[k].peer) /\ Named(c[k].x) \cap cfg.list = {}) =>
     c[k].out = "Served"
\* a request for a listed peer or origin never reaches the cache lookup, the file system, the upstream
Inv_ServeOnlyClean ==
  \A k \in Conns : c[k].pc \in ServePcs \cup CachePcs =>
     ~Listed(c[k].peer) /\ ~Listed(OnBehalfOf(c[k].peer, c[k].x))
\* the step-by-step machine computes the function Model
Inv_ModelFn ==
  \A k \in Conns :
    /\ Answered(k) => c[k].out = Model(Dev, cfg, c[k].peer, c[k].x, c[k].rt, c[k].warm)
    /\ c[k].st = "dropped" => Model(Dev, cfg, c[k].peer, NoXff, "file", FALSE) = "Dropped"
    /\ c[k].st = "open" => VerifyConnection(Dev, cfg, c[k].peer)

\* the cache is only ever filled on behalf of requests that were allowed to see the content
Prop_CacheFill ==
  [][ \A key \in cached' \ cached :
        \E k \in Conns : /\ c[k].pc = "inner_file" /\ key = <<c[k].rt, c[k].uri>>
                         /\ ~Listed(c[k].peer) /\ ~Listed(OnBehalfOf(c[k].peer, c[k].x)) ]_vars
\* the configuration is read-only
Prop_CfgFixed == [][cfg' = cfg]_vars

\* liveness: an accepted connection is admitted or dropped; a request that was read is answered
Live_Admission == \A k \in Conns : (c[k].st = "accepting") ~> (c[k].st \in {"open", "dropped"})
Live_Answered  == \A k \in Conns : (c[k].pc = "parse") ~> Answered(k)

\* "can happen" witnesses: TLC must VIOLATE these (checked in MC_Blacklist_wit*.cfg)
Wit_NoCachedAnswer == \A k \in Conns : ~(Answered(k) /\ c[k].warm /\ c[k].out = "Served")
Wit_NoDrop         == \A k \in Conns : c[k].st # "dropped"
Wit_NoForwarded403 == \A k \in Conns : ~(Answered(k) /\ ~Listed(c[k].peer) /\ c[k].out = "Forbidden403")
Wit_NoLenientCase  == \A k \in Conns : ~(Answered(k) /\ Cardinality(Decide(cfg.mode, cfg.list, c[k].peer, c[k].x)) = 2)
=============================================================================
