CONSTANTS
  Addrs = {"127.0.0.1", "127.0.0.2", "127.9.9.9", "::1", "10.1.2.3", "2001:db8::7"}
  Peers = {"127.0.0.1", "127.0.0.2", "127.9.9.9", "::1"}
  V4Addrs = {"127.0.0.1", "127.0.0.2", "127.9.9.9", "10.1.2.3"}
  Duals = {FALSE, TRUE}
  ListForms = {FALSE}
  NameCases = {FALSE}
  Garbage = {"unknown"}
  Lists = {{}, {"127.0.0.2"}, {"10.1.2.3"}, {"127.9.9.9", "::1"}, {"127.0.0.1", "10.1.2.3", "2001:db8::7"}}
  MaxXff = 3
  Uris = {"u1"}
  Conns = {1}
  Dev = {}
INIT GenInit
NEXT GenNext
INVARIANTS GenSound GenInv
CHECK_DEADLOCK FALSE
