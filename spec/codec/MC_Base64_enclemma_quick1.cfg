CONSTANTS
  Dev = {}
  Sigma = {} MaxText = 0
  EA <- Bytes EB <- Bytes EC <- FewBytes
  P1 = {} P2 = {} P3 = {} P4 = {}
INIT EncInit
NEXT EncNext
INVARIANTS EncLemma EncShort EncRound
CHECK_DEADLOCK FALSE
