CONSTANTS
  MaxLen = 130
  EmitMax = 0
  Lens <- LenRange
  Kinds = {1, 2}
  Mut = {}
SPECIFICATION Spec
INVARIANTS TypeOK StreamIsSha1
PROPERTY Terminates
CHECK_DEADLOCK FALSE
