CONSTANTS
  MaxLen = 128
  EmitMax = 0
  Lens <- LenRange
  Kinds = {1}
  Mut = {}
SPECIFICATION Spec
INVARIANTS TypeOK StreamIsSha1
PROPERTY Terminates
CHECK_DEADLOCK FALSE
