------------------------------ MODULE Percent ------------------------------
(* Percent-encoding (RFC 3986 sections 2.1 - 2.3) executable by TLC - property C18.

   Denotation:  Enc(bytes)  every byte outside the unreserved set becomes PCT HEXDIG HEXDIG (upper case,
                            2.1: "should use uppercase"), unreserved bytes stand for themselves (2.3);
                Dec(text)   the inverse on texts in which every PCT is followed by two hex digits of
                            either case (2.1); any other use of PCT is malformed.
   Algorithm:   the decoder of humphrey/src/percent.rs, one action per loop iteration.  Dev:
                  PercentPlusHex  the two characters after PCT go through u8::from_str_radix, which
                                  accepts a leading `+`: PCT + f decodes to byte 15.
   Texts are sequences of byte values (the Rust function takes &str and works on its UTF-8 bytes). *)
EXTENDS Naturals, Sequences, TLC

CONSTANT Dev

PCT == 37
\* ALPHA / DIGIT / "-" / "." / "_" / "~"
Unreserved == (65..90) \cup (97..122) \cup (48..57) \cup {45, 46, 95, 126}
UpperHex == <<48, 49, 50, 51, 52, 53, 54, 55, 56, 57, 65, 66, 67, 68, 69, 70>>   \* index = value + 1
LowerHex == <<48, 49, 50, 51, 52, 53, 54, 55, 56, 57, 97, 98, 99, 100, 101, 102>>
IsHex(ch)  == \E i \in 1..16 : UpperHex[i] = ch \/ LowerHex[i] = ch
HexVal(ch) == (CHOOSE i \in 1..16 : UpperHex[i] = ch \/ LowerHex[i] = ch) - 1

EncByte(b) == IF b \in Unreserved THEN <<b>> ELSE <<PCT, UpperHex[(b \div 16) + 1], UpperHex[(b % 16) + 1]>>
\* the encoder loop of percent.rs for one byte.  Mutation (a plausible bug, refuted by MC_Percent_mut_Latin1Alnum.cfg):
\*   Latin1Alnum   the byte is classified through `char`, so the Latin-1 letters 0xAA, 0xB5, 0xBA, 0xC0..0xFF (except
\*                 0xD7, 0xF7) count as alphanumeric and are left unescaped
Latin1Letters == {170, 181, 186} \cup (192..214) \cup (216..246) \cup (248..255)
EncAlgoByte(b, dev) == IF b \in Unreserved \/ ("Latin1Alnum" \in dev /\ b \in Latin1Letters) THEN <<b>>
                       ELSE <<PCT, UpperHex[(b \div 16) + 1], UpperHex[(b % 16) + 1]>>
RECURSIVE Enc(_)
Enc(bs) == IF bs = <<>> THEN <<>> ELSE EncByte(Head(bs)) \o Enc(Tail(bs))

OK(v) == [ok |-> TRUE, v |-> v]
ERR   == [ok |-> FALSE, v |-> <<>>]
RECURSIVE DecFrom(_, _, _)
DecFrom(s, i, acc) ==
  IF i > Len(s) THEN OK(acc)
  ELSE IF s[i] # PCT THEN DecFrom(s, i + 1, Append(acc, s[i]))
  ELSE IF i + 2 <= Len(s) /\ IsHex(s[i + 1]) /\ IsHex(s[i + 2])
       THEN DecFrom(s, i + 3, Append(acc, HexVal(s[i + 1]) * 16 + HexVal(s[i + 2])))
  ELSE ERR
Dec(s) == DecFrom(s, 1, <<>>)

RoundTrip(bs) == Dec(Enc(bs)) = OK(bs)
\* Second-level judge (false-alarm audit).  Enc is the NORMAL form: RFC 3986 makes upper-case hex digits (2.1) and leaving
\* unreserved characters unescaped (2.3) recommendations ("should"), and calls the variants equivalent (6.2.2).  An output
\* is an acceptable encoding of bs when it decodes to bs and contains nothing but unreserved characters and escapes.
\* Differences from Enc that EncAcceptable admits are reported as specification drift, everything else as a violation.
EncAcceptable(bs, out) ==
  /\ Dec(out) = OK(bs)
  /\ \A i \in 1..Len(out) : out[i] \in Unreserved \/ out[i] = PCT \/ (i > 1 /\ out[i - 1] = PCT) \/ (i > 2 /\ out[i - 2] = PCT)
\* the encoder's output only ever contains unreserved characters and well-formed triplets
EncShape(bs) == LET e == Enc(bs) IN
  \A i \in 1..Len(e) : e[i] \in Unreserved \/ e[i] = PCT
                       \/ (i > 1 /\ e[i - 1] = PCT) \/ (i > 2 /\ e[i - 2] = PCT)

--------------------------------------------------------------------------------
(* The decoder loop of percent.rs. *)
\* what u8::from_str_radix(<<c1, c2>>, 16) returns: a value, or 256 for Err
Radix16(c1, c2, dev) ==
  IF IsHex(c1) /\ IsHex(c2) THEN HexVal(c1) * 16 + HexVal(c2)
  ELSE IF "PercentPlusHex" \in dev /\ c1 = 43 /\ IsHex(c2) THEN HexVal(c2)
  ELSE 256

RECURSIVE AlgoFrom(_, _, _, _)
AlgoFrom(s, i, acc, dev) ==
  IF i > Len(s) THEN OK(acc)
  ELSE IF s[i] # PCT THEN AlgoFrom(s, i + 1, Append(acc, s[i]), dev)
  ELSE IF i + 2 > Len(s) THEN ERR
  ELSE LET b == Radix16(s[i + 1], s[i + 2], dev) IN
       IF b = 256 THEN ERR ELSE AlgoFrom(s, i + 3, Append(acc, b), dev)
AlgoDec(s, dev) == AlgoFrom(s, 1, <<>>, dev)

VARIABLES text, pos, out, res          \* res \in {"run", "ok", "err"}
vars == <<text, pos, out, res>>
InitOn(Texts) == text \in Texts /\ pos = 1 /\ out = <<>> /\ res = "run"

Alg_Plain == /\ res = "run" /\ pos <= Len(text) /\ text[pos] # PCT
             /\ out' = Append(out, text[pos]) /\ pos' = pos + 1 /\ UNCHANGED <<text, res>>
Alg_Escape == /\ res = "run" /\ pos <= Len(text) /\ text[pos] = PCT /\ pos + 2 <= Len(text)
              /\ LET b == Radix16(text[pos + 1], text[pos + 2], Dev) IN
                   IF b = 256 THEN res' = "err" /\ out' = <<>> /\ pos' = pos
                   ELSE out' = Append(out, b) /\ pos' = pos + 3 /\ res' = res
              /\ UNCHANGED text
Alg_Truncated == /\ res = "run" /\ pos <= Len(text) /\ text[pos] = PCT /\ pos + 2 > Len(text)
                 /\ res' = "err" /\ out' = <<>> /\ UNCHANGED <<text, pos>>
Alg_End == /\ res = "run" /\ pos > Len(text)
           /\ res' = "ok" /\ UNCHANGED <<text, pos, out>>
Next == Alg_Plain \/ Alg_Escape \/ Alg_Truncated \/ Alg_End

AlgoCorrect == res # "run" => [ok |-> res = "ok", v |-> out] = Dec(text)
=============================================================================
