SPECIFICATION Spec
INVARIANTS AllAgree CalendarOK
CHECK_DEADLOCK FALSE
