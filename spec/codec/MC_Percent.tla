----------------------------- MODULE MC_Percent -----------------------------
(* TLC-only definitions for Percent: the property's input spaces and vector emission. *)
EXTENDS Percent, Json

CONSTANT MaxText

\* the property's symbol set: PCT 0 9 a F g + SPACE and a non-ASCII character (e-acute, two UTF-8 bytes)
\* plus (lessons L3) two non-ASCII digits: ARABIC-INDIC DIGIT THREE U+0663 and FULLWIDTH DIGIT ONE U+FF11
Syms == { <<37>>, <<48>>, <<57>>, <<97>>, <<70>>, <<103>>, <<43>>, <<32>>, <<195, 169>>, <<217, 163>>, <<239, 188, 145>> }
RECURSIVE Flat(_)
Flat(ss) == IF ss = <<>> THEN <<>> ELSE Head(ss) \o Flat(Tail(ss))
SeqsUpTo(S, n) == UNION { [1..k -> S] : k \in 0..n }
Texts == { Flat(ss) : ss \in SeqsUpTo(Syms, MaxText) }

Init == InitOn(Texts)
Spec == Init /\ [][Next]_vars /\ WF_vars(Next)
Terminates == <>(res # "run")

\* every PCT x y with x, y ASCII: exactly the 22 x 22 hex pairs decode (a state space of its own)
EscInit == text \in { <<PCT, x, y>> : x \in 0..127, y \in 0..127 } /\ pos = 1 /\ out = <<>> /\ res = "run"
EscCount == res # "run" => ((res = "ok") <=> (IsHex(text[2]) /\ IsHex(text[3])))

\* every byte pair round-trips and the encoding has the right shape
PairInit == text \in { <<a, b>> : a \in 0..255, b \in 0..255 } /\ pos = 0 /\ out = <<>> /\ res = "pair"
PairNext == FALSE /\ UNCHANGED vars
EncAlgoLemma == EncAlgoByte(text[1], Dev) = EncByte(text[1])
PairInv == RoundTrip(text) /\ EncAlgoLemma /\ EncShape(text) /\ RoundTrip(<<text[1]>>)
           /\ Enc(text) = EncByte(text[1]) \o EncByte(text[2])

\* emission
EncVecInit == text \in { <<a>> : a \in 0..255 } /\ pos = 0 /\ out = <<>> /\ res = "encvec"
EncVecInv == /\ (text[1] = 0 => PrintT(ToJson([k |-> "punres", set |-> Unreserved])))
             /\ EncAcceptable(text, Enc(text))
             /\ PrintT(ToJson([k |-> "penc", a |-> text[1], e1 |-> Enc(text),
                            e2 |-> [b \in 1..256 |-> Enc(<<text[1], b - 1>>)]]))
DecVecInit == text \in Texts /\ pos = 0 /\ out = <<>> /\ res = "decvec"
DecVecInv == PrintT(ToJson([k |-> "pdec", t |-> text, exp |-> Dec(text), plus |-> AlgoDec(text, {"PercentPlusHex"})]))
\* PCT x y for all ASCII x, y: one line per x with the 128 outcomes
EscVecInit == text \in { <<x>> : x \in 0..127 } /\ pos = 0 /\ out = <<>> /\ res = "escvec"
EscVecInv == PrintT(ToJson([k |-> "pesc", x |-> text[1],
                            exp |-> [y \in 1..128 |-> Dec(<<PCT, text[1], y - 1>>)],
                            plus |-> [y \in 1..128 |-> AlgoDec(<<PCT, text[1], y - 1>>, {"PercentPlusHex"})]]))

\* all emission in one run
GenAllInit == EncVecInit \/ DecVecInit \/ EscVecInit
GenAllInv == /\ (res = "encvec" => EncVecInv)
             /\ (res = "decvec" => DecVecInv)
             /\ (res = "escvec" => EscVecInv)
=============================================================================
