CONSTANTS
  LastYear = 1970
  Mode = "day"
  Mut = {}
  FullUntil = 0
INIT ClockInit
NEXT ClockNext
INVARIANTS ClockAgrees GenClock
CHECK_DEADLOCK FALSE
