------------------------------ MODULE Base64 ------------------------------
(* Base64 (RFC 4648 section 4, with the strictness rules of section 3) executable by TLC - property C18.

   Bytes are 0..255; an encoded text is a sequence of ASCII codes.

   Denotation:   Enc(bytes)          the encoding (unique)
                 DecAllowed(text)    the SET of outcomes a conforming decoder may produce.  It is a set
                                     because DESIGN 5a reads the property leniently in two places:
                                       - an unpadded final group of 2 or 3 symbols may be rejected or decoded
                                         correctly (RFC 4648 3.2 lets a specification waive padding),
                                       - non-zero trailing bits in the last symbol before the padding may be
                                         rejected or ignored (RFC 4648 3.5 "MAY").
                                     Everything else that is malformed (symbol outside the alphabet, `=`
                                     anywhere but as the last one or two symbols of the last 4-symbol
                                     group, a dangling single symbol) must be rejected.
   Algorithm:    the decoder of humphrey-ws/src/util/base64.rs as a state machine, one action per
                 4-symbol group (outer loop iteration).  Dev names the defects the code had:
                   B64PlusSlashShift  `+` and `/` are shifted by 6*i instead of 6*(3-i)
                   B64PadPanic        `=` as first symbol of a group: slice [1..0] panics
                   B64LaxPadding      padding/length rules not enforced: `=` accepted from position 1 on,
                                      in any group, whatever follows it in the group; a short final
                                      group yields three bytes
                 Dev = {} is the repaired decoder and satisfies AlgoCorrect; each deviation is refuted. *)
EXTENDS Naturals, Sequences, Bitwise, TLC

CONSTANT Dev

PAD == 61
\* RFC 4648 Table 1
Alpha == [i \in 0..63 |-> IF i < 26 THEN 65 + i
                          ELSE IF i < 52 THEN 97 + (i - 26)
                          ELSE IF i < 62 THEN 48 + (i - 52)
                          ELSE IF i = 62 THEN 43 ELSE 47]
\* inverse of the table; 64 = not in the alphabet
Val == [ch \in 0..255 |-> IF \E i \in 0..63 : Alpha[i] = ch THEN CHOOSE i \in 0..63 : Alpha[i] = ch ELSE 64]
InAlpha(ch) == Val[ch] < 64

--------------------------------------------------------------------------------
(* Encoding: 24-bit groups -> four 6-bit symbols; a final 8- or 16-bit group is padded with zero bits
   to 12 / 18 bits and with `=` to four symbols. *)
RECURSIVE Enc(_)
Enc(b) ==
  IF Len(b) = 0 THEN <<>>
  ELSE IF Len(b) = 1 THEN
       LET n == b[1] * 16 IN <<Alpha[n \div 64], Alpha[n % 64], PAD, PAD>>
  ELSE IF Len(b) = 2 THEN
       LET n == (b[1] * 256 + b[2]) * 4 IN <<Alpha[n \div 4096], Alpha[(n \div 64) % 64], Alpha[n % 64], PAD>>
  ELSE LET n == b[1] * 65536 + b[2] * 256 + b[3] IN
       <<Alpha[n \div 262144], Alpha[(n \div 4096) % 64], Alpha[(n \div 64) % 64], Alpha[n % 64]>>
       \o Enc(SubSeq(b, 4, Len(b)))

--------------------------------------------------------------------------------
(* Decoding.  Outcomes have one shape: [r |-> "ok" | "err" | "panic", v |-> bytes]. *)
OK(v)  == [r |-> "ok", v |-> v]
ERR    == [r |-> "err", v |-> <<>>]
PANIC  == [r |-> "panic", v |-> <<>>]

AllAlpha(s) == \A i \in 1..Len(s) : InAlpha(s[i])
Group(s, k) == SubSeq(s, 4 * k - 3, 4 * k)          \* k-th 4-symbol group, 1-based

\* a text whose length is a multiple of four is well formed iff every group but the last is four
\* alphabet symbols and the last is xxxx, xxx= or xx==
LastOK(q) == \/ AllAlpha(q)
             \/ (AllAlpha(SubSeq(q, 1, 3)) /\ q[4] = PAD)
             \/ (AllAlpha(SubSeq(q, 1, 2)) /\ q[3] = PAD /\ q[4] = PAD)
WellFormed(s) == /\ Len(s) % 4 = 0
                 /\ \A k \in 1..(Len(s) \div 4 - 1) : AllAlpha(Group(s, k))
                 /\ Len(s) > 0 => LastOK(Group(s, Len(s) \div 4))

\* bytes of one well-formed group, and whether its unused trailing bits are zero
QuadBytes(q) ==
  IF q[3] = PAD THEN LET n == Val[q[1]] * 64 + Val[q[2]] IN <<n \div 16>>
  ELSE IF q[4] = PAD THEN LET n == Val[q[1]] * 4096 + Val[q[2]] * 64 + Val[q[3]] IN <<n \div 1024, (n \div 4) % 256>>
  ELSE LET n == Val[q[1]] * 262144 + Val[q[2]] * 4096 + Val[q[3]] * 64 + Val[q[4]] IN
       <<n \div 65536, (n \div 256) % 256, n % 256>>
QuadCanonical(q) ==
  IF q[3] = PAD THEN Val[q[2]] % 16 = 0
  ELSE IF q[4] = PAD THEN Val[q[3]] % 4 = 0
  ELSE TRUE

RECURSIVE ValueFrom(_, _)
ValueFrom(s, k) == IF 4 * k > Len(s) THEN <<>> ELSE QuadBytes(Group(s, k)) \o ValueFrom(s, k + 1)
Value(s)     == ValueFrom(s, 1)                                   \* s well formed
Canonical(s) == Len(s) = 0 \/ QuadCanonical(Group(s, Len(s) \div 4))

\* the strict decoder of RFC 4648 (padding mandatory, canonical encodings only)
DecStrict(s) == IF WellFormed(s) /\ Canonical(s) THEN OK(Value(s)) ELSE ERR

\* padding completed for an unpadded final group of two or three alphabet symbols
Padded(s) == IF Len(s) % 4 = 2 THEN s \o <<PAD, PAD>> ELSE IF Len(s) % 4 = 3 THEN s \o <<PAD>> ELSE s
DecAllowed(s) ==
  LET r == Len(s) % 4 IN
  IF r = 0 THEN
       IF WellFormed(s) THEN (IF Canonical(s) THEN {OK(Value(s))} ELSE {OK(Value(s)), ERR})
       ELSE {ERR}
  ELSE IF r \in {2, 3} /\ AllAlpha(SubSeq(s, Len(s) - r + 1, Len(s))) /\ WellFormed(Padded(s))
       THEN {OK(Value(Padded(s))), ERR}
  ELSE {ERR}

\* every text produced by Enc is strictly decodable, to exactly the input (checked by TLC on the
\* generated inputs and on the traces)
RoundTrip(b) == DecStrict(Enc(b)) = OK(b) /\ DecAllowed(Enc(b)) = {OK(b)}

--------------------------------------------------------------------------------
(* The decoder of base64.rs.  GroupStep is the body of the outer loop for one chunk `q` (1..4 symbols):
   the inner loop over the symbols, then the slice of the three decoded bytes. *)
Shift(i, v, dev) == IF v >= 62 /\ "B64PlusSlashShift" \in dev THEN 6 * (i - 1) ELSE 6 * (4 - i)   \* i is 1-based

\* inner loop: st = [d |-> accumulated value, broken |-> number of data symbols, r |-> "run"/"brk"/"err"/"panic"]
RECURSIVE Inner(_, _, _, _, _)
Inner(q, i, st, last, dev) ==
  IF i > Len(q) \/ st.r # "run" THEN st
  ELSE LET ch == q[i] IN
       IF InAlpha(ch) THEN Inner(q, i + 1, [st EXCEPT !.d = st.d | (Val[ch] * 2^Shift(i, Val[ch], dev))], last, dev)
       ELSE IF ch = PAD THEN
            IF "B64LaxPadding" \in dev
            THEN (IF i = 1 THEN (IF "B64PadPanic" \in dev THEN [st EXCEPT !.r = "panic"] ELSE [st EXCEPT !.r = "err"])
                  ELSE [st EXCEPT !.broken = i - 1, !.r = "brk"])
            ELSE IF i = 1 /\ "B64PadPanic" \in dev THEN [st EXCEPT !.r = "panic"]
            ELSE IF i < 3 \/ Len(q) # 4 \/ ~last \/ \E j \in i..Len(q) : q[j] # PAD THEN [st EXCEPT !.r = "err"]
            ELSE [st EXCEPT !.broken = i - 1, !.r = "brk"]
       ELSE [st EXCEPT !.r = "err"]

Bytes3(d) == <<d \div 65536, (d \div 256) % 256, d % 256>>
GroupStep(q, last, dev) ==
  LET st0 == [d |-> 0, broken |-> IF "B64LaxPadding" \in dev THEN 4 ELSE Len(q), r |-> "run"]
      st  == Inner(q, 1, st0, last, dev)
  IN IF st.r = "err" \/ st.r = "panic" THEN [r |-> st.r, v |-> <<>>]
     ELSE IF st.broken < 2 /\ "B64LaxPadding" \notin dev THEN ERR            \* a dangling single symbol
     ELSE [r |-> "ok", v |-> SubSeq(Bytes3(st.d % 16777216), 1, st.broken - 1)]

NGroups(s) == (Len(s) + 3) \div 4
Chunk(s, k) == SubSeq(s, 4 * k - 3, IF 4 * k <= Len(s) THEN 4 * k ELSE Len(s))

\* the whole run as an operator (used for vector emission: what the code does under a deviation)
RECURSIVE AlgoFrom(_, _, _, _)
AlgoFrom(s, k, acc, dev) ==
  IF k > NGroups(s) THEN OK(acc)
  ELSE LET g == GroupStep(Chunk(s, k), k = NGroups(s), dev) IN
       IF g.r # "ok" THEN g ELSE AlgoFrom(s, k + 1, acc \o g.v, dev)
AlgoDec(s, dev) == AlgoFrom(s, 1, <<>>, dev)

VARIABLES text, gi, out, res          \* res \in {"run", "ok", "err", "panic"}
vars == <<text, gi, out, res>>

InitOn(Texts) == text \in Texts /\ gi = 1 /\ out = <<>> /\ res = "run"

Cur == GroupStep(Chunk(text, gi), gi = NGroups(text), Dev)
Alg_Group == /\ res = "run" /\ gi <= NGroups(text) /\ Cur.r = "ok"
             /\ out' = out \o Cur.v /\ gi' = gi + 1 /\ UNCHANGED <<text, res>>
Alg_Reject == /\ res = "run" /\ gi <= NGroups(text) /\ Cur.r = "err"
              /\ res' = "err" /\ out' = <<>> /\ UNCHANGED <<text, gi>>
Alg_Panic == /\ res = "run" /\ gi <= NGroups(text) /\ Cur.r = "panic"
             /\ res' = "panic" /\ out' = <<>> /\ UNCHANGED <<text, gi>>
Alg_End == /\ res = "run" /\ gi > NGroups(text)
           /\ res' = "ok" /\ UNCHANGED <<text, gi, out>>
Next == Alg_Group \/ Alg_Reject \/ Alg_Panic \/ Alg_End

\* C18 for the decoder: it stops with an outcome the denotation allows
AlgoCorrect == res # "run" => [r |-> res, v |-> out] \in DecAllowed(text)
AlgoAsOperator == res # "run" => [r |-> res, v |-> out] = AlgoDec(text, Dev)
NeverPanics == res # "panic"
=============================================================================
