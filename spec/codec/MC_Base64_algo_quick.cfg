CONSTANTS
  Dev = {}
  Sigma = {65, 81, 47, 43, 61, 45}
  MaxText = 5
  EA = {} EB = {} EC = {} P1 = {} P2 = {} P3 = {} P4 = {}
SPECIFICATION Spec
INVARIANTS AlgoCorrect AlgoAsOperator NeverPanics
PROPERTY Terminates
CHECK_DEADLOCK FALSE
