----------------------------- MODULE Trace_Codec -----------------------------
(* Code -> spec direction for C18: the harness (`codec random`) logs what the real functions returned on
   random inputs; every record must be explained by the operators of Sha1 / Base64 / Percent / HttpDate.
   Record shape (every field always present): [k, a, b, r, n, s]
     k = "sha1":  a = message bytes, b = digest                       -> Sha1(a) = b
     k = "b64e":  a = bytes, b = text                                 -> Base64!Enc(a) = b and it round-trips
     k = "b64d":  a = text, r = "ok"/"err"/"panic", b = bytes         -> outcome \in Base64!DecAllowed(a)
     k = "pe":    a = bytes, b = text                                 -> Percent!Enc(a) = b
     k = "pd":    a = text, r, b                                      -> outcome = Percent!Dec(a)
     k = "date":  n = day number, a = <<second of day>>, s = string   -> s = ImfFixdate of that instant
   Date records are sorted by day; the calendar walks forward by HttpDate!Month_Jump (silent steps)
   until the record's day lies in the current month (whole years by HttpDate!Year_Jump while it lies beyond the current year). *)
EXTENDS Naturals, Sequences, TLC, Json, IOUtils

VARIABLES day, wd, d, m, y, ms, mw, ys, yw, dps, hh, mi, ss, sod, tps,   \* HttpDate's calendar and clock
          l, bad, odd
cal == <<day, wd, d, m, y, ms, mw, ys, yw, dps, hh, mi, ss, sod, tps>>

S == INSTANCE Sha1 WITH Lens <- {}, Kinds <- {}, Mut <- {}, len <- 0, kind <- 0, g <- 0, rem <- 0, h <- <<>>, phase <- ""
B == INSTANCE Base64 WITH Dev <- {}, text <- <<>>, gi <- 0, out <- <<>>, res <- ""
P == INSTANCE Percent WITH Dev <- {}, text <- <<>>, pos <- 0, out <- <<>>, res <- ""
D == INSTANCE HttpDate WITH LastYear <- 9999, Mode <- "month", Mut <- {}

Rec == ndJsonDeserialize(IOEnv.TRACE)

InMonth(r) == r.n >= ms /\ r.n < ms + D!DaysIn(m, y)
Good(r) ==
  IF r.k = "sha1" THEN r.r = "ok" /\ S!Sha1(r.a) = r.b
  ELSE IF r.k = "b64e" THEN r.r = "ok" /\ B!Enc(r.a) = r.b /\ B!RoundTrip(r.a)
  ELSE IF r.k = "b64d" THEN [r |-> r.r, v |-> r.b] \in B!DecAllowed(r.a)
  ELSE IF r.k = "pe" THEN r.r = "ok" /\ P!EncAcceptable(r.a, r.b) /\ P!RoundTrip(r.a)
  ELSE IF r.k = "pd" THEN r.r \in {"ok", "err"} /\ [ok |-> r.r = "ok", v |-> r.b] = P!Dec(r.a)
  ELSE IF r.k = "date" THEN
       /\ InMonth(r)
       /\ LET dd == r.n - ms + 1 IN
          r.s = D!DayPart((mw + dd - 1) % 7, dd) \o D!MonthPart(m, y) \o D!TimeOfSecond(r.a[1]) \o " GMT"
  ELSE FALSE

\* stricter than the statement (reported as drift): the percent-encoder's output is the normal form (upper-case hex, unreserved left alone)
Strict(r) == r.k = "pe" => P!Enc(r.a) = r.b

Init == D!Init /\ l = 1 /\ bad = <<>> /\ odd = <<>>
Consume == /\ l <= Len(Rec)
           /\ (Rec[l].k = "date" /\ ~D!AtEnd) => Rec[l].n < ms + D!DaysIn(m, y)
           /\ l' = l + 1
           /\ bad' = IF Good(Rec[l]) \/ Len(bad) >= 20 THEN bad ELSE Append(bad, l)
           /\ odd' = IF ~Good(Rec[l]) \/ Strict(Rec[l]) \/ Len(odd) >= 20 THEN odd ELSE Append(odd, l)
           /\ UNCHANGED cal
\* the record's day lies after the current month: go on by a whole year while it lies beyond this year, else by a month
Advance == /\ l <= Len(Rec) /\ Rec[l].k = "date" /\ Rec[l].n >= ms + D!DaysIn(m, y)
           /\ IF Rec[l].n >= ys + D!YearLen(y) /\ y < 9999 THEN D!Year_Jump ELSE D!Month_Jump
           /\ UNCHANGED <<l, bad, odd>>
Next == Consume \/ Advance
Spec == Init /\ [][Next]_<<cal, l, bad, odd>>

AllAgree == (l = Len(Rec) + 1) =>
              /\ (odd # <<>> => PrintT(ToJson([drift |-> [i \in 1..Len(odd) |-> Rec[odd[i]]]])))
              /\ \/ bad = <<>>
                 \/ PrintT(ToJson([rejected |-> [i \in 1..Len(bad) |-> Rec[bad[i]]]])) /\ FALSE
\* (not in Trace_Codec.cfg: MC_HttpDate_months.cfg checks the same walk with these invariants)
CalendarOK == D!JumpAgrees /\ D!YearAgrees /\ D!AlgoAgrees
=============================================================================
