--------------------------- MODULE Base64Tables ---------------------------
(* Per-symbol tables derived from Base64.tla's Enc / QuadBytes, and the operators that join them.  Kept apart from
   Base64.tla because TLC evaluates parameterless constant definitions at start-up: only the configurations that
   need the tables (decomposition lemmas, table emission) pay for the 2 x 65536 encodings. *)
EXTENDS Base64

(* Per-symbol decomposition used by the harness to cover all 2^24 three-byte groups and all
   68^4 four-symbol texts with table look-ups only.  The tables are computed from Enc / QuadBytes;
   the Join* operators say how they are combined; TLC checks Join = denotation (MC_Base64). *)
S1 == [a \in 0..255 |-> Enc(<<a, 0, 0>>)[1]]
S2 == [a \in 0..255 |-> [b \in 0..255 |-> Enc(<<a, b, 0>>)[2]]]
S3 == [b \in 0..255 |-> [c \in 0..255 |-> Enc(<<0, b, c>>)[3]]]
S4 == [c \in 0..255 |-> Enc(<<0, 0, c>>)[4]]
JoinEnc(a, b, c) == <<S1[a], S2[a][b], S3[b][c], S4[c]>>

A0 == Alpha[0]
D1 == [x \in 0..63 |-> [y \in 0..63 |-> QuadBytes(<<Alpha[x], Alpha[y], A0, A0>>)[1]]]
D2 == [x \in 0..63 |-> [y \in 0..63 |-> QuadBytes(<<A0, Alpha[x], Alpha[y], A0>>)[2]]]
D3 == [x \in 0..63 |-> [y \in 0..63 |-> QuadBytes(<<A0, A0, Alpha[x], Alpha[y]>>)[3]]]
Canon2 == [x \in 0..63 |-> QuadCanonical(<<A0, Alpha[x], PAD, PAD>>)]    \* second symbol of xx==
Canon3 == [x \in 0..63 |-> QuadCanonical(<<A0, A0, Alpha[x], PAD>>)]     \* third symbol of xxx=

Cls(ch) == IF InAlpha(ch) THEN "a" ELSE IF ch = PAD THEN "p" ELSE "b"
ShapeOf(q) == [i \in 1..4 |-> Cls(q[i])]
\* what a 4-symbol text of a given shape is: a full quad, one pad, two pads, or malformed
ShapeVerdict(sh) == IF sh = <<"a", "a", "a", "a">> THEN "quad"
                    ELSE IF sh = <<"a", "a", "a", "p">> THEN "pad1"
                    ELSE IF sh = <<"a", "a", "p", "p">> THEN "pad2"
                    ELSE "err"
JoinDec(q) ==
  LET v == ShapeVerdict(ShapeOf(q))
      x == [i \in 1..4 |-> Val[q[i]]]
  IN IF v = "quad" THEN {OK(<<D1[x[1]][x[2]], D2[x[2]][x[3]], D3[x[3]][x[4]]>>)}
     ELSE IF v = "pad1" THEN {OK(<<D1[x[1]][x[2]], D2[x[2]][x[3]]>>)} \cup (IF Canon3[x[3]] THEN {} ELSE {ERR})
     ELSE IF v = "pad2" THEN {OK(<<D1[x[1]][x[2]]>>)} \cup (IF Canon2[x[2]] THEN {} ELSE {ERR})
     ELSE {ERR}
=============================================================================
