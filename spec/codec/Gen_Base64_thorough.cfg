CONSTANTS
  Dev = {}
  Sigma = {65, 81, 47, 43, 61, 45}
  MaxText = 6
  EA = {} EB = {} EC = {} P1 = {} P2 = {} P3 = {} P4 = {}
INIT GenAllInit
NEXT TabNext
INVARIANTS GenAllInv
CHECK_DEADLOCK FALSE
