CONSTANTS
  Dev = {}
  MaxText = 4
SPECIFICATION Spec
INVARIANTS AlgoCorrect
PROPERTY Terminates
CHECK_DEADLOCK FALSE
