CONSTANTS
  Dev = {}
  MaxText = 0
INIT PairInit
NEXT PairNext
INVARIANTS PairInv
CHECK_DEADLOCK FALSE
