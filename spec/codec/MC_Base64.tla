----------------------------- MODULE MC_Base64 -----------------------------
(* TLC-only definitions for Base64: bounded input spaces, the decoder-model run and vector emission
   (the decomposition lemmas and the tables are in MC_Base64Tab). *)
EXTENDS Base64, Json

CONSTANTS Sigma,      \* symbols (ASCII codes) for the decoder model / decode vectors
          MaxText,    \* maximal text length for them
          EA, EB, EC, \* byte sets for the three positions of the encoder lemma
          P1, P2, P3, P4   \* symbol sets for the four positions of the decoder lemma

Bytes == 0..255
AlphaSyms == { Alpha[i] : i \in 0..63 }
Sym68 == AlphaSyms \cup {PAD, 45, 95, 32}           \* alphabet, `=`, `-`, `_`, space
FewBytes == {0, 255}
Mix32 == { (i * 37) % 256 : i \in 0..31 }     \* 32 byte values with varied bit patterns
TwoSyms == {65, PAD}
FewSyms == {65, 47, PAD, 32}    \* A / = space

SeqsUpTo(S, n) == UNION { [1..k -> S] : k \in 0..n }
Texts == SeqsUpTo(Sigma, MaxText)

\* ---- 1. the decoder model on every text of the bound
Init == InitOn(Texts)
Spec == Init /\ [][Next]_vars /\ WF_vars(Next)
Terminates == <>(res # "run")

\* ---- 2. emission of vectors
VecNext == FALSE /\ UNCHANGED vars
\* encode vectors: every 1- and 2-byte input (one line per first byte), every length 0..64 with two contents
FillBytes(n, k) == [i \in 1..n |-> (i * 37 + k * 101 + n * 7) % 256]
EncVecInit == text \in { <<a>> : a \in Bytes } \cup { <<300, n>> : n \in 0..64 } /\ gi = 0 /\ out = <<>> /\ res = "encvec"
EncVecInv ==
  IF text[1] < 256
  THEN PrintT(ToJson([k |-> "enc12", a |-> text[1], e1 |-> Enc(text),
                      e2 |-> [b \in 1..256 |-> Enc(<<text[1], b - 1>>)]]))
  ELSE PrintT(ToJson([k |-> "enclen", ins |-> << FillBytes(text[2], 1), FillBytes(text[2], 2) >>,
                      outs |-> << Enc(FillBytes(text[2], 1)), Enc(FillBytes(text[2], 2)) >>]))

\* decode vectors: every text of the bound with the allowed outcomes and what each deviation would do
DevNames == {"B64PlusSlashShift", "B64PadPanic", "B64LaxPadding"}
LongTexts == SeqsUpTo({65, 47, PAD}, 9)      \* several groups: A / = up to length 9
\* texts with non-ASCII characters (UTF-8 bytes of e-acute, FULLWIDTH A, ARABIC-INDIC DIGIT THREE, NBSP) and C0/DEL controls
OddTexts == { <<81, 81, 195, 169>>, <<195, 169, 61, 61>>, <<239, 188, 161, 65>>, <<217, 163, 65, 65>>, <<65, 65, 194, 160>>,
              <<81, 81, 61, 61, 194, 160>>, <<65, 65, 65, 127>>, <<65, 65, 65, 0>>, <<10, 65, 65, 65, 65>>, <<65, 65, 65, 65, 10>>,
              <<65, 65, 65, 65, 13, 10>>, <<9>>, <<195, 169>> }
DecVecInit == text \in Texts \cup LongTexts \cup OddTexts /\ gi = 0 /\ out = <<>> /\ res = "decvec"
DecVecInv == PrintT(ToJson([k |-> "dec", t |-> text, allowed |-> DecAllowed(text),
                            plus |-> AlgoDec(text, {"B64PlusSlashShift"}),
                            panic |-> AlgoDec(text, {"B64PadPanic"}),
                            lax |-> AlgoDec(text, {"B64LaxPadding"}),
                            asfound |-> AlgoDec(text, DevNames)]))

=============================================================================
