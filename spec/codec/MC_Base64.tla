----------------------------- MODULE MC_Base64 -----------------------------
(* TLC-only definitions for Base64: bounded input spaces, the decomposition lemmas as state spaces
   (one symbol appended per step, because TLC refuses sets above 10^6), and vector / table emission. *)
EXTENDS Base64, Json

CONSTANTS Sigma,      \* symbols (ASCII codes) for the decoder model / decode vectors
          MaxText,    \* maximal text length for them
          EA, EB, EC, \* byte sets for the three positions of the encoder lemma
          P1, P2, P3, P4   \* symbol sets for the four positions of the decoder lemma

Bytes == 0..255
AlphaSyms == { Alpha[i] : i \in 0..63 }
Sym68 == AlphaSyms \cup {PAD, 45, 95, 32}           \* alphabet, `=`, `-`, `_`, space
FewBytes == {0, 255}
FewSyms == {65, 47, PAD, 32}    \* A / = space

SeqsUpTo(S, n) == UNION { [1..k -> S] : k \in 0..n }
Texts == SeqsUpTo(Sigma, MaxText)

\* ---- 1. the decoder model on every text of the bound
Init == InitOn(Texts)
Spec == Init /\ [][Next]_vars /\ WF_vars(Next)
Terminates == <>(res # "run")

\* ---- 2. encoder decomposition lemma: Enc(<<a,b,c>>) = JoinEnc(a,b,c) on EA x EB x EC
LemInit(X, Y) == text \in { <<x, y>> : x \in X, y \in Y } /\ gi = 0 /\ out = <<>> /\ res = "lemma"
LemNext(n, Z) == /\ Len(text) < n
                 /\ \E z \in Z : text' = Append(text, z)
                 /\ UNCHANGED <<gi, out, res>>
EncInit == LemInit(EA, EB)
EncNext == LemNext(3, EC)
EncLemma == Len(text) = 3 => Enc(text) = JoinEnc(text[1], text[2], text[3])
\* and for the short inputs: Enc of 1 and 2 bytes round-trips (the 3-byte case is covered by Dec lemma + tables)
EncShort == Len(text) = 2 => RoundTrip(text) /\ RoundTrip(<<text[1]>>)
EncRound == Len(text) = 3 => RoundTrip(text)

\* ---- 3. decoder decomposition lemma: DecAllowed(q) = JoinDec(q) on P1 x P2 x P3 x P4
DecInit == LemInit(P1, P2)
DecNext == \/ (Len(text) = 2 /\ LemNext(4, P3))
           \/ (Len(text) = 3 /\ LemNext(4, P4))
DecLemma == Len(text) = 4 => DecAllowed(text) = JoinDec(text)
\* the repaired decoder model agrees with the denotation on the same space (single-group texts)
DecAlgoLemma == Len(text) = 4 => AlgoDec(text, {}) \in DecAllowed(text)

\* ---- 4. emission
\* tables for the harness-side exhaustive sweeps
TabInit == text = <<>> /\ gi = 0 /\ out = <<>> /\ res = "tables"
TabNext == FALSE /\ UNCHANGED vars
TabInv == res = "tables" =>      \* (state-level on purpose: a constant-level definition would be evaluated, and printed, by every run)
  /\ PrintT(ToJson([k |-> "enc_tables", s1 |-> [a \in 1..256 |-> S1[a - 1]], s4 |-> [a \in 1..256 |-> S4[a - 1]],
                    s2 |-> [a \in 1..256 |-> [b \in 1..256 |-> S2[a - 1][b - 1]]],
                    s3 |-> [a \in 1..256 |-> [b \in 1..256 |-> S3[a - 1][b - 1]]]]))
  /\ PrintT(ToJson([k |-> "dec_tables",
                    sym |-> [ch \in 1..256 |-> [cls |-> Cls(ch - 1), v |-> Val[ch - 1]]],
                    sym68 |-> Sym68,
                    d1 |-> [x \in 1..64 |-> [y \in 1..64 |-> D1[x - 1][y - 1]]],
                    d2 |-> [x \in 1..64 |-> [y \in 1..64 |-> D2[x - 1][y - 1]]],
                    d3 |-> [x \in 1..64 |-> [y \in 1..64 |-> D3[x - 1][y - 1]]],
                    canon2 |-> [x \in 1..64 |-> Canon2[x - 1]], canon3 |-> [x \in 1..64 |-> Canon3[x - 1]],
                    shapes |-> { [sh |-> sh, verdict |-> ShapeVerdict(sh)] : sh \in [1..4 -> {"a", "p", "b"}] }]))

\* encode vectors: every 1- and 2-byte input (one line per first byte), every length 0..64 with two contents
FillBytes(n, k) == [i \in 1..n |-> (i * 37 + k * 101 + n * 7) % 256]
EncVecInit == text \in { <<a>> : a \in Bytes } \cup { <<300, n>> : n \in 0..64 } /\ gi = 0 /\ out = <<>> /\ res = "encvec"
EncVecInv ==
  IF text[1] < 256
  THEN PrintT(ToJson([k |-> "enc12", a |-> text[1], e1 |-> Enc(text),
                      e2 |-> [b \in 1..256 |-> Enc(<<text[1], b - 1>>)]]))
  ELSE PrintT(ToJson([k |-> "enclen", ins |-> << FillBytes(text[2], 1), FillBytes(text[2], 2) >>,
                      outs |-> << Enc(FillBytes(text[2], 1)), Enc(FillBytes(text[2], 2)) >>]))

\* decode vectors: every text of the bound with the allowed outcomes and what each deviation would do
DevNames == {"B64PlusSlashShift", "B64PadPanic", "B64LaxPadding"}
LongTexts == SeqsUpTo({65, 47, PAD}, 9)      \* several groups: A / = up to length 9
\* texts with non-ASCII characters (UTF-8 bytes of e-acute, FULLWIDTH A, ARABIC-INDIC DIGIT THREE, NBSP) and C0/DEL controls
OddTexts == { <<81, 81, 195, 169>>, <<195, 169, 61, 61>>, <<239, 188, 161, 65>>, <<217, 163, 65, 65>>, <<65, 65, 194, 160>>,
              <<81, 81, 61, 61, 194, 160>>, <<65, 65, 65, 127>>, <<65, 65, 65, 0>>, <<10, 65, 65, 65, 65>>, <<65, 65, 65, 65, 10>>,
              <<65, 65, 65, 65, 13, 10>>, <<9>>, <<195, 169>> }
DecVecInit == text \in Texts \cup LongTexts \cup OddTexts /\ gi = 0 /\ out = <<>> /\ res = "decvec"
DecVecInv == PrintT(ToJson([k |-> "dec", t |-> text, allowed |-> DecAllowed(text),
                            plus |-> AlgoDec(text, {"B64PlusSlashShift"}),
                            panic |-> AlgoDec(text, {"B64PadPanic"}),
                            lax |-> AlgoDec(text, {"B64LaxPadding"}),
                            asfound |-> AlgoDec(text, DevNames)]))

\* all emission in one run
GenAllInit == TabInit \/ EncVecInit \/ DecVecInit
GenAllInv == /\ TabInv
             /\ (res = "encvec" => EncVecInv)
             /\ (res = "decvec" => DecVecInv)
=============================================================================
