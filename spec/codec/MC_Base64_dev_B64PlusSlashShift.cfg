CONSTANTS
  Dev = {"B64PlusSlashShift"}
  Sigma = {65, 81, 47, 43, 61}
  MaxText = 5
  EA = {} EB = {} EC = {} P1 = {} P2 = {} P3 = {} P4 = {}
INIT Init
NEXT Next
INVARIANTS AlgoCorrect
CHECK_DEADLOCK FALSE
