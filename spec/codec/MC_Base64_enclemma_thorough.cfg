CONSTANTS
  Dev = {}
  Sigma = {} MaxText = 0
  EA <- Bytes EB <- Bytes EC <- Bytes
  P1 = {} P2 = {} P3 = {} P4 = {}
INIT EncInit
NEXT EncNext
INVARIANTS EncLemma EncShort
CHECK_DEADLOCK FALSE
