CONSTANTS
  LastYear = 2105
  Mode = "day"
  Mut = {}
  FullUntil = 2105
INIT Init
NEXT Next
INVARIANTS TypeOK JumpAgrees YearAgrees AlgoAgrees Anchors GenMonthByDays
CHECK_DEADLOCK FALSE
