------------------------------ MODULE HttpDate ------------------------------
(* HTTP dates (RFC 7231 section 7.1.1.1, IMF-fixdate) - property C18.

   The reference is the Gregorian calendar as a STATE MACHINE: a state is one day
   (day number since the epoch, weekday, day of month, month, year) and NextDay moves to the following
   day with the leap-year rule.  Started at Thursday 1970-01-01 it reaches 9999-12-31 after 2 932 896
   steps.  It shares no arithmetic with the closed-form conversion under test.

   Three more things live here:
     * a month-jump formulation (ms, mw: day number and weekday of the 1st of the current month,
       advanced by whole months) kept in lock-step and compared in every state (JumpAgrees); the quick
       tier and the trace spec walk by months;
     * the clock of one day as a state machine (Tick), giving HH:MM:SS for each second of a day;
     * the conversion of humphrey/src/http/date.rs (musl's __secs_to_tm, anchored at 2000-03-01) as an
       operator on day numbers, compared with the calendar in every state (AlgoAgrees).  Mut switches
       plausible bugs into it (sensitivity configs).
   IMF-fixdate is assembled by the operators DayPart / MonthPart / TimePart. *)
EXTENDS Integers, Sequences, TLC

CONSTANTS LastYear,     \* the walk stops at 31 December of this year
          Mode,         \* "day": NextDay steps;  "month": month jumps only
          Mut           \* mutations of the algorithm model, {} = the code

Leap(y) == (y % 4 = 0 /\ y % 100 # 0) \/ y % 400 = 0
YearLen(y) == IF Leap(y) THEN 366 ELSE 365
DaysIn(m, y) == IF m = 2 THEN (IF Leap(y) THEN 29 ELSE 28)
                ELSE IF m \in {4, 6, 9, 11} THEN 30 ELSE 31

--------------------------------------------------------------------------------
(* IMF-fixdate = day-name "," SP 2DIGIT SP month SP 4DIGIT SP 2DIGIT ":" 2DIGIT ":" 2DIGIT SP "GMT" *)
DayName   == <<"Sun", "Mon", "Tue", "Wed", "Thu", "Fri", "Sat">>          \* index weekday + 1, 0 = Sunday
MonthName == <<"Jan", "Feb", "Mar", "Apr", "May", "Jun", "Jul", "Aug", "Sep", "Oct", "Nov", "Dec">>
D2(n) == IF n < 10 THEN "0" \o ToString(n) ELSE ToString(n)
D4(n) == IF n < 10 THEN "000" \o ToString(n) ELSE IF n < 100 THEN "00" \o ToString(n)
         ELSE IF n < 1000 THEN "0" \o ToString(n) ELSE ToString(n)
DayPart(w, dd)      == DayName[w + 1] \o ", " \o D2(dd)
MonthPart(mm, yy)   == " " \o MonthName[mm] \o " " \o D4(yy) \o " "
TimePart(h, mi, s)  == D2(h) \o ":" \o D2(mi) \o ":" \o D2(s)
ImfFixdate(w, dd, mm, yy, h, mi, s) == DayPart(w, dd) \o MonthPart(mm, yy) \o TimePart(h, mi, s) \o " GMT"

--------------------------------------------------------------------------------
(* date.rs, From<i64> for DateTime, on day numbers: days = n - 11017 is the number of days since 2000-03-01
   (951868800 / 86400 = 11017).  Rust's / and % truncate toward zero; TLA+'s \div and % floor. *)
TDiv(a, b) == IF a >= 0 THEN a \div b ELSE -((-a) \div b)
TRem(a, b) == a - b * TDiv(a, b)
DIM == <<31, 30, 31, 30, 31, 31, 30, 31, 30, 31, 31, 29>>       \* months from March
RECURSIVE MonthScan(_, _)
MonthScan(rd, mo) == IF DIM[mo + 1] <= rd THEN MonthScan(rd - DIM[mo + 1], mo + 1) ELSE <<rd, mo>>
CivilFromDays(n) ==
  LET days == n - 11017
      wd0  == TRem(days + 3, 7)
      wdv  == IF wd0 < 0 THEN wd0 + 7 ELSE wd0
      c400a == TDiv(days, 146097)
      r0a  == TRem(days, 146097)
      c400 == IF r0a < 0 THEN c400a - 1 ELSE c400a
      r0   == IF r0a < 0 THEN r0a + 146097 ELSE r0a
      c100a == r0 \div 36524
      c100 == IF c100a = 4 /\ "NoCentury4Fix" \notin Mut THEN 3 ELSE c100a
      r1   == r0 - c100 * 36524
      c4a  == r1 \div 1461
      c4   == IF c4a = 25 THEN 24 ELSE c4a        \* as in the code; unreachable (r1 <= 36524 < 25 * 1461)
      r2   == r1 - c4 * 1461
      ya   == r2 \div 365
      yrs  == IF ya = 4 /\ "NoYear4Fix" \notin Mut THEN 3 ELSE ya
      r3   == r2 - yrs * 365
      y0   == yrs + 4 * c4 + 100 * c100 + 400 * c400 + 2000
      ms   == MonthScan(r3, 0)
      mo2  == ms[2] + 2
      wrap == IF "WrapAt11" \in Mut THEN mo2 >= 11 ELSE mo2 >= 12
  IN [y |-> IF wrap THEN y0 + 1 ELSE y0,
      m |-> (IF wrap THEN mo2 - 12 ELSE mo2) + 1,       \* 1-based here, 0-based in the struct
      d |-> ms[1] + 1,
      wd |-> wdv]

--------------------------------------------------------------------------------
VARIABLES day, wd, d, m, y,     \* the current day
          ms, mw,               \* day number and weekday of the 1st of the current month, by month jumps
          ys, yw,               \* day number and weekday of 1 January of the current year, by year jumps
          dps,                  \* DayPart strings of days 1..d of the current month ("day" mode)
          hh, mi, ss, sod, tps  \* the clock: time of day, second of day, TimePart strings of this minute
cal == <<day, wd, d, m, y, ms, mw, ys, yw, dps>>
clk == <<hh, mi, ss, sod, tps>>
vars == <<cal, clk>>

ClockZero == hh = 0 /\ mi = 0 /\ ss = 0 /\ sod = 0 /\ tps = <<TimePart(0, 0, 0)>>
Init == /\ day = 0 /\ wd = 4 /\ d = 1 /\ m = 1 /\ y = 1970        \* Thursday, 1 January 1970
        /\ ms = 0 /\ mw = 4 /\ ys = 0 /\ yw = 4 /\ dps = <<DayPart(4, 1)>>
        /\ ClockZero

AtEnd == y = LastYear /\ m = 12 /\ (Mode = "month" \/ d = 31)

Day_Within ==
  /\ Mode = "day" /\ d < DaysIn(m, y)
  /\ day' = day + 1 /\ wd' = (wd + 1) % 7 /\ d' = d + 1
  /\ dps' = Append(dps, DayPart(wd', d'))
  /\ UNCHANGED <<m, y, ms, mw, ys, yw, clk>>
Day_MonthEnd ==
  /\ Mode = "day" /\ d = DaysIn(m, y) /\ m < 12
  /\ day' = day + 1 /\ wd' = (wd + 1) % 7 /\ d' = 1 /\ m' = m + 1
  /\ ms' = ms + DaysIn(m, y) /\ mw' = (mw + DaysIn(m, y)) % 7
  /\ dps' = <<DayPart(wd', 1)>>
  /\ UNCHANGED <<y, ys, yw, clk>>
Day_YearEnd ==
  /\ Mode = "day" /\ d = 31 /\ m = 12 /\ ~AtEnd
  /\ day' = day + 1 /\ wd' = (wd + 1) % 7 /\ d' = 1 /\ m' = 1 /\ y' = y + 1
  /\ ms' = ms + 31 /\ mw' = (mw + 31) % 7
  /\ ys' = ys + YearLen(y) /\ yw' = (yw + YearLen(y)) % 7
  /\ dps' = <<DayPart(wd', 1)>>
  /\ UNCHANGED clk
\* month mode: from the 1st of a month to the 1st of the next
Month_Jump ==
  /\ Mode = "month" /\ ~AtEnd
  /\ ms' = ms + DaysIn(m, y) /\ mw' = (mw + DaysIn(m, y)) % 7
  /\ day' = ms' /\ wd' = mw' /\ d' = 1
  /\ m' = IF m = 12 THEN 1 ELSE m + 1
  /\ y' = IF m = 12 THEN y + 1 ELSE y
  /\ ys' = IF m = 12 THEN ys + YearLen(y) ELSE ys
  /\ yw' = IF m = 12 THEN (yw + YearLen(y)) % 7 ELSE yw
  /\ dps' = <<DayPart(wd', 1)>>
  /\ UNCHANGED clk
\* from anywhere in a year to its successor's 1 January (used by the trace spec to cross centuries quickly;
\* YearAgrees ties it to the month jumps, which JumpAgrees ties to the day steps)
Year_Jump ==
  /\ Mode = "month" /\ y < LastYear
  /\ ys' = ys + YearLen(y) /\ yw' = (yw + YearLen(y)) % 7
  /\ ms' = ys' /\ mw' = yw' /\ day' = ys' /\ wd' = yw' /\ d' = 1 /\ m' = 1 /\ y' = y + 1
  /\ dps' = <<DayPart(wd', 1)>>
  /\ UNCHANGED clk
Next == Day_Within \/ Day_MonthEnd \/ Day_YearEnd \/ Month_Jump \/ Year_Jump

\* the DayPart strings of a whole month from its first weekday (what month mode and the trace spec use)
MonthDays(w1, mm, yy) == [i \in 1..DaysIn(mm, yy) |-> DayPart((w1 + i - 1) % 7, i)]

TypeOK == /\ wd \in 0..6 /\ m \in 1..12 /\ d \in 1..DaysIn(m, y) /\ y \in 1970..LastYear
          /\ Len(dps) = d \/ Mode = "month"
JumpAgrees == /\ day = ms + d - 1 /\ wd = (mw + d - 1) % 7
              /\ (Mode = "day" /\ d = DaysIn(m, y)) => dps = MonthDays(mw, m, y)
\* days of which EVERY second is replayed on the code (lessons L1: numeric boundaries of the timestamp): the epoch,
\* the days containing 2^24, 2^31, 2^32 .. 2^37 seconds (2^38 lies beyond 9999), the day before / of the algorithm's own
\* anchor 2000-03-01, the last day of its 400-year cycle (2400-02-29), 2100-02-28 / 03-01, and the last day of 9999
EverySecondDays == {0, 194, 11016, 11017, 24855, 47540, 47541, 49710, 99420, 157113, 198841, 397682, 795364, 1590728, 2932896}
YearAgrees == (m = 1 => (ms = ys /\ mw = yw)) /\ ys <= ms /\ ms < ys + YearLen(y)
AlgoAgrees == CivilFromDays(day) = [y |-> y, m |-> m, d |-> d, wd |-> wd]
\* well-known fixed points of the calendar
Anchors == /\ (y = 2000 /\ m = 3 /\ d = 1) => (day = 11017 /\ wd = 3)
           /\ (y = 2038 /\ m = 1 /\ d = 19) => (day = 24855 /\ wd = 2)       \* 2^31 seconds
           /\ (y = 9999 /\ m = 12 /\ d = 31) => (day = 2932896 /\ wd = 5)
           /\ (y = 2400 /\ m = 12 /\ d = 31) => wd = 0
           /\ (day = 11016) => (y = 2000 /\ m = 2 /\ d = 29)
           /\ (day = 47541) => (y = 2100 /\ m = 3 /\ d = 1)
           /\ (day = 157113) => (y = 2400 /\ m = 2 /\ d = 29)

--------------------------------------------------------------------------------
(* The clock of one day. *)
ClockInit == /\ day = 0 /\ wd = 4 /\ d = 1 /\ m = 1 /\ y = 1970 /\ ms = 0 /\ mw = 4 /\ ys = 0 /\ yw = 4 /\ dps = <<>>
             /\ ClockZero
Tick_Second == /\ ss < 59 /\ ss' = ss + 1 /\ sod' = sod + 1
               /\ tps' = Append(tps, TimePart(hh, mi, ss'))
               /\ UNCHANGED <<hh, mi, cal>>
Tick_Minute == /\ ss = 59 /\ mi < 59 /\ ss' = 0 /\ mi' = mi + 1 /\ sod' = sod + 1
               /\ tps' = <<TimePart(hh, mi', 0)>>
               /\ UNCHANGED <<hh, cal>>
Tick_Hour == /\ ss = 59 /\ mi = 59 /\ hh < 23 /\ ss' = 0 /\ mi' = 0 /\ hh' = hh + 1 /\ sod' = sod + 1
             /\ tps' = <<TimePart(hh', 0, 0)>>
             /\ UNCHANGED cal
ClockNext == Tick_Second \/ Tick_Minute \/ Tick_Hour
\* the closed form used by the trace spec
TimeOfSecond(n) == TimePart(n \div 3600, (n \div 60) % 60, n % 60)
ClockAgrees == /\ sod = hh * 3600 + mi * 60 + ss /\ sod < 86400
               /\ tps[Len(tps)] = TimeOfSecond(sod) /\ Len(tps) = ss + 1
=============================================================================
