CONSTANTS
  MaxLen = 70
  EmitMax = 0
  Lens <- LenRange
  Kinds = {1}
  Mut = {"PadFits56"}
INIT Init
NEXT Next
INVARIANTS StreamIsSha1
CHECK_DEADLOCK FALSE
