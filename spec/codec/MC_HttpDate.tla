----------------------------- MODULE MC_HttpDate -----------------------------
(* TLC-only definitions for HttpDate: emission of one line per month / per minute. *)
EXTENDS HttpDate, Json

CONSTANT FullUntil     \* months of years <= FullUntil are always emitted; later years: December to March only

\* days of the current month (as day-of-month) every second of which is to be replayed; Start = day number of the 1st
Es(start) == { i \in 1..DaysIn(m, y) : (start + i - 1) \in EverySecondDays }
Emit == y <= FullUntil \/ m \in {12, 1, 2, 3} \/ Es(ms) # {}
\* "day" mode: at the last day of a month the stepped weekdays of the whole month are known
GenMonthByDays == (d = DaysIn(m, y) /\ Emit) =>
  PrintT(ToJson([k |-> "month", n0 |-> day - d + 1, y |-> y, m |-> m, mp |-> MonthPart(m, y), days |-> dps, es |-> Es(day - d + 1)]))
\* "month" mode: a state is the 1st of a month
GenMonthByJumps == Emit =>
  PrintT(ToJson([k |-> "month", n0 |-> ms, y |-> y, m |-> m, mp |-> MonthPart(m, y), days |-> MonthDays(mw, m, y), es |-> Es(ms)]))
GenClock == ss = 59 => PrintT(ToJson([k |-> "minute", s0 |-> sod - 59, tps |-> tps]))
=============================================================================
