------------------------------ MODULE MC_Sha1 ------------------------------
(* TLC-only helpers for Sha1: constant ranges, the RFC vectors as an assumption, and vector emission. *)
EXTENDS Sha1, Json

CONSTANTS MaxLen,    \* Lens == 0..MaxLen in the exhaustive / generation configs
          EmitMax    \* messages up to this length are printed with their bytes

LenRange == 0..MaxLen

ASSUME RfcVectors

\* one JSON line per finished message: abstract message, its digest, and (short messages) the bytes
GenInv == phase = "done" =>
  PrintT(ToJson([k |-> "sha1", len |-> len, c |-> kind, d |-> DigestBytes(h),
                 m |-> IF len <= EmitMax THEN Msg(kind, len) ELSE <<>>]))
=============================================================================
