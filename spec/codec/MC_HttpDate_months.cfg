CONSTANTS
  LastYear = 9999
  Mode = "month"
  Mut = {}
  FullUntil = 1969
INIT Init
NEXT Next
INVARIANTS TypeOK JumpAgrees YearAgrees AlgoAgrees GenMonthByJumps
CHECK_DEADLOCK FALSE
