CONSTANTS
  Dev = {}
  MaxText = 4
INIT GenAllInit
NEXT PairNext
INVARIANTS GenAllInv
CHECK_DEADLOCK FALSE
