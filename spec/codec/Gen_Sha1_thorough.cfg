CONSTANTS
  MaxLen = 1100
  EmitMax = 1100
  Lens <- LenRange
  Kinds = {1, 2, 3}
  Mut = {}
INIT Init
NEXT Next
INVARIANTS GenInv
CHECK_DEADLOCK FALSE
