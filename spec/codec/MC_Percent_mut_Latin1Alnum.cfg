CONSTANTS
  Dev = {"Latin1Alnum"}
  MaxText = 0
INIT EncVecInit
NEXT PairNext
INVARIANTS EncAlgoLemma
CHECK_DEADLOCK FALSE
