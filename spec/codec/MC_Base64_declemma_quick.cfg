CONSTANTS
  Dev = {}
  Sigma = {} MaxText = 0
  EA = {} EB = {} EC = {}
  P1 <- FewSyms P2 <- Sym68 P3 <- Sym68 P4 <- FewSyms
INIT DecInit
NEXT DecNext
INVARIANTS DecLemma DecAlgoLemma
CHECK_DEADLOCK FALSE
