CONSTANTS
  MaxLen = 70
  EmitMax = 0
  Lens <- LenRange
  Kinds = {1}
  Mut = {"LenInBytes"}
INIT Init
NEXT Next
INVARIANTS StreamIsSha1
CHECK_DEADLOCK FALSE
