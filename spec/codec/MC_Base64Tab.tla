---------------------------- MODULE MC_Base64Tab ----------------------------
(* TLC-only definitions that need Base64Tables: the decomposition lemmas as state spaces (one symbol appended per
   step, because TLC refuses sets above 10^6), table emission, and all emission in one run. *)
EXTENDS MC_Base64, Base64Tables

\* ---- 2. encoder decomposition lemma: Enc(<<a,b,c>>) = JoinEnc(a,b,c) on EA x EB x EC
LemInit(X, Y) == text \in { <<x, y>> : x \in X, y \in Y } /\ gi = 0 /\ out = <<>> /\ res = "lemma"
LemNext(n, Z) == /\ Len(text) < n
                 /\ \E z \in Z : text' = Append(text, z)
                 /\ UNCHANGED <<gi, out, res>>
EncInit == LemInit(EA, EB)
EncNext == LemNext(3, EC)
EncLemma == Len(text) = 3 => Enc(text) = JoinEnc(text[1], text[2], text[3])
\* and for the short inputs: Enc of 1 and 2 bytes round-trips (the 3-byte case is covered by Dec lemma + tables)
EncShort == Len(text) = 2 => RoundTrip(text) /\ RoundTrip(<<text[1]>>)
EncRound == Len(text) = 3 => RoundTrip(text)

\* ---- 3. decoder decomposition lemma: DecAllowed(q) = JoinDec(q) on P1 x P2 x P3 x P4
DecInit == LemInit(P1, P2)
DecNext == \/ (Len(text) = 2 /\ LemNext(4, P3))
           \/ (Len(text) = 3 /\ LemNext(4, P4))
DecLemma == Len(text) = 4 => DecAllowed(text) = JoinDec(text)
\* the repaired decoder model agrees with the denotation on the same space (single-group texts)
DecAlgoLemma == Len(text) = 4 => AlgoDec(text, {}) \in DecAllowed(text)

\* ---- 3b. the quick tier checks samples of both lemmas in ONE run (the tables are computed once):
\*   q1: Bytes x Mix32 x FewBytes      q2: FewBytes x Bytes x Mix32      qd: TwoSyms x Sym68 x Sym68 x FewSyms
LemInitTag(X, Y, tag) == text \in { <<x, y>> : x \in X, y \in Y } /\ gi = 0 /\ out = <<>> /\ res = tag
QInit == LemInitTag(Bytes, Mix32, "q1") \/ LemInitTag(FewBytes, Bytes, "q2") \/ LemInitTag(TwoSyms, Sym68, "qd")
QNext == \/ (res = "q1" /\ LemNext(3, FewBytes))
         \/ (res = "q2" /\ LemNext(3, Mix32))
         \/ (res = "qd" /\ Len(text) = 2 /\ LemNext(4, Sym68))
         \/ (res = "qd" /\ Len(text) = 3 /\ LemNext(4, FewSyms))
QInv == /\ (res \in {"q1", "q2"} => (EncLemma /\ EncRound))
        /\ (res = "q1" => EncShort)
        /\ (res = "qd" => (DecLemma /\ DecAlgoLemma))

\* ---- 4. emission
\* tables for the harness-side exhaustive sweeps
TabInit == text = <<>> /\ gi = 0 /\ out = <<>> /\ res = "tables"
TabNext == FALSE /\ UNCHANGED vars
TabInv == res = "tables" =>      \* (state-level on purpose: a constant-level definition would be evaluated, and printed, by every run)
  /\ PrintT(ToJson([k |-> "enc_tables", s1 |-> [a \in 1..256 |-> S1[a - 1]], s4 |-> [a \in 1..256 |-> S4[a - 1]],
                    s2 |-> [a \in 1..256 |-> [b \in 1..256 |-> S2[a - 1][b - 1]]],
                    s3 |-> [a \in 1..256 |-> [b \in 1..256 |-> S3[a - 1][b - 1]]]]))
  /\ PrintT(ToJson([k |-> "dec_tables",
                    sym |-> [ch \in 1..256 |-> [cls |-> Cls(ch - 1), v |-> Val[ch - 1]]],
                    sym68 |-> Sym68,
                    d1 |-> [x \in 1..64 |-> [y \in 1..64 |-> D1[x - 1][y - 1]]],
                    d2 |-> [x \in 1..64 |-> [y \in 1..64 |-> D2[x - 1][y - 1]]],
                    d3 |-> [x \in 1..64 |-> [y \in 1..64 |-> D3[x - 1][y - 1]]],
                    canon2 |-> [x \in 1..64 |-> Canon2[x - 1]], canon3 |-> [x \in 1..64 |-> Canon3[x - 1]],
                    shapes |-> { [sh |-> sh, verdict |-> ShapeVerdict(sh)] : sh \in [1..4 -> {"a", "p", "b"}] }]))


\* all emission in one run
GenAllInit == TabInit \/ EncVecInit \/ DecVecInit
GenAllInv == /\ TabInv
             /\ (res = "encvec" => EncVecInv)
             /\ (res = "decvec" => DecVecInv)
=============================================================================
