CONSTANTS
  Dev = {}
  MaxText = 0
INIT EscInit
NEXT Next
INVARIANTS AlgoCorrect EscCount
CHECK_DEADLOCK FALSE
