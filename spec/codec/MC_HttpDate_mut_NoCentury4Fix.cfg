CONSTANTS
  LastYear = 2105
  Mode = "day"
  Mut = {"NoCentury4Fix"}
  FullUntil = 0
INIT Init
NEXT Next
INVARIANTS AlgoAgrees
CHECK_DEADLOCK FALSE
