CONSTANTS
  Dev = {}
  Sigma = {} MaxText = 0
  EA = {} EB = {} EC = {}
  P1 <- Sym68 P2 <- Sym68 P3 <- Sym68 P4 <- Sym68
INIT DecInit
NEXT DecNext
INVARIANTS DecLemma
CHECK_DEADLOCK FALSE
