CONSTANTS
  Dev = {}
  Sigma = {} MaxText = 0
  EA = {} EB = {} EC = {}
  P1 = {} P2 = {} P3 = {} P4 = {}
INIT QInit
NEXT QNext
INVARIANTS QInv
CHECK_DEADLOCK FALSE
