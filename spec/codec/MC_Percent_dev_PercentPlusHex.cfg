CONSTANTS
  Dev = {"PercentPlusHex"}
  MaxText = 3
INIT Init
NEXT Next
INVARIANTS AlgoCorrect
CHECK_DEADLOCK FALSE
