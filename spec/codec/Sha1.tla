------------------------------- MODULE Sha1 -------------------------------
(* SHA-1 written from RFC 3174 / FIPS 180-4, executable by TLC (property C18).

   TLC integers are 32-bit signed, so a 32-bit word is a pair <<hi, lo>> of 16-bit halves.
   Two formulations are given and TLC checks that they agree:
     * Sha1(msg)        - the RFC's definition on an explicit byte sequence: pad (section 4), split
                          into 512-bit blocks, fold the compression function (section 6.1);
     * a streaming state machine (variables below) that absorbs an abstract message [len, c]
       - a byte stream produced by a generator, never held as a whole - one block per step and
       finishes with one or two padding blocks depending on len % 64.  This is the shape of every
       real implementation (and lets TLC digest 1 MiB without building a 1 MiB sequence).
   Mut (a set of strings) switches *plausible bugs* into the streaming machine; with Mut = {} the
   invariant StreamIsSha1 holds, each mutation is refuted by TLC (sensitivity configs). *)
EXTENDS Naturals, Sequences, Bitwise, TLC

CONSTANTS Lens,      \* set of message lengths to run
          Kinds,     \* set of content kinds (see ByteOf / NextGen)
          Mut        \* set of mutation names, {} = the RFC

W16 == 65536

--------------------------------------------------------------------------------
(* 32-bit words *)
XorW(a, b) == <<a[1] ^^ b[1], a[2] ^^ b[2]>>
AndW(a, b) == <<a[1] & b[1], a[2] & b[2]>>
OrW(a, b)  == <<a[1] | b[1], a[2] | b[2]>>
NotW(a)    == <<65535 - a[1], 65535 - a[2]>>
AddW(a, b) == LET lo == a[2] + b[2] IN <<(a[1] + b[1] + (lo \div W16)) % W16, lo % W16>>
\* circular left shift S^n(X), 0 < n < 32   (RFC 3174 section 3.c)
Rotl(a, n) ==
  LET s == IF n >= 16 THEN <<a[2], a[1]>> ELSE a
      k == n % 16
      p == 2^k
      q == 2^(16 - k)
  IN IF k = 0 THEN s
     ELSE <<((s[1] * p) % W16) + (s[2] \div q), ((s[2] * p) % W16) + (s[1] \div q)>>

\* section 5: functions and constants, t in 0..79
F(t, b, c, d) ==
  IF t <= 19 THEN OrW(AndW(b, c), AndW(NotW(b), d))
  ELSE IF t <= 39 THEN XorW(XorW(b, c), d)
  ELSE IF t <= 59 THEN OrW(OrW(AndW(b, c), AndW(b, d)), AndW(c, d))
  ELSE XorW(XorW(b, c), d)
K(t) ==
  IF t <= 19 THEN <<23170, 31129>>        \* 5A827999
  ELSE IF t <= 39 THEN <<28377, 60321>>   \* 6ED9EBA1
  ELSE IF t <= 59 THEN <<36635, 48348>>   \* 8F1BBCDC
  ELSE <<51810, 49622>>                   \* CA62C1D6

H0 == << <<26437, 8961>>,     \* 67452301
         <<61389, 43913>>,    \* EFCDAB89
         <<39098, 56574>>,    \* 98BADCFE
         <<4146, 21622>>,     \* 10325476
         <<50130, 57840>> >>  \* C3D2E1F0

\* 64 bytes -> 16 big-endian words
WordsOf(bytes) == [i \in 1..(Len(bytes) \div 4) |->
                     <<bytes[4*i - 3] * 256 + bytes[4*i - 2], bytes[4*i - 1] * 256 + bytes[4*i]>>]

\* section 6.1 (b): W(t) = S^1(W(t-3) XOR W(t-8) XOR W(t-14) XOR W(t-16)); w is 1-based, w[t+1] = W(t)
RECURSIVE Extend(_)
Extend(w) ==
  IF Len(w) = 80 THEN w
  ELSE LET n == Len(w) + 1 IN
       Extend(Append(w, Rotl(XorW(XorW(w[n - 3], w[n - 8]), XorW(w[n - 14], w[n - 16])), 1)))

\* section 6.1 (d): 80 rounds on <<A,B,C,D,E>>
RECURSIVE Rounds(_, _, _)
Rounds(s, w, t) ==
  IF t = 80 THEN s
  ELSE LET temp == AddW(AddW(AddW(AddW(Rotl(s[1], 5), F(t, s[2], s[3], s[4])), s[5]), w[t + 1]), K(t))
       IN Rounds(<<temp, s[1], Rotl(s[2], 30), s[3], s[4]>>, w, t + 1)

\* one 512-bit block (64 bytes) folded into the chaining value h
Block(h, bytes) ==
  LET r == Rounds(h, Extend(WordsOf(bytes)), 0)
  IN [i \in 1..5 |-> AddW(h[i], r[i])]

Zeros(n) == [i \in 1..n |-> 0]
\* 64-bit big-endian bit count of an n-byte message (n < 2^28, so the upper 32 bits are zero)
LenField(n) == LET bits == n * 8 IN
  <<0, 0, 0, 0, bits \div 16777216, (bits \div 65536) % 256, (bits \div 256) % 256, bits % 256>>
\* section 4: append 0x80, then the least number of zero bytes such that the total with the 8-byte
\* length is a multiple of 64
Pad(msg) == LET n == Len(msg) IN
  msg \o <<128>> \o Zeros((64 - ((n + 9) % 64)) % 64) \o LenField(n)

RECURSIVE FoldBlocks(_, _, _)
FoldBlocks(h, p, i) ==
  IF 64 * i >= Len(p) THEN h
  ELSE FoldBlocks(Block(h, SubSeq(p, 64 * i + 1, 64 * i + 64)), p, i + 1)

Sha1H(msg) == FoldBlocks(H0, Pad(msg), 0)
\* the 20 digest bytes, big endian
DigestBytes(h) == [i \in 1..20 |->
  LET w == h[(i - 1) \div 4 + 1]
      j == (i - 1) % 4
  IN IF j = 0 THEN w[1] \div 256 ELSE IF j = 1 THEN w[1] % 256 ELSE IF j = 2 THEN w[2] \div 256 ELSE w[2] % 256]
Sha1(msg) == DigestBytes(Sha1H(msg))

--------------------------------------------------------------------------------
(* Abstract messages [len, c]: a byte stream drawn from a generator with state g.
   kind 1: Lehmer-style stream  g' = (75 g + 74) mod 65537, byte = g mod 256, first state depends on len
   kind 2: every byte 0xFF (all carries)     kind 3: every byte 0x00
   kind 4: the byte 'a' (RFC 3174 TEST3 is 1 000 000 of them)
   The harness mirrors this generator; for len <= EmitMax TLC also prints the bytes, which the
   harness uses to check its mirror. *)
Gen0(c, n)    == IF c = 1 THEN (n * 31 + 7) % 65537 ELSE 0
NextGen(c, g) == IF c = 1 THEN (g * 75 + 74) % 65537 ELSE 0
ByteOf(c, g)  == IF c = 1 THEN g % 256 ELSE IF c = 2 THEN 255 ELSE IF c = 3 THEN 0 ELSE 97

\* take n bytes: <<bytes, next generator state>>
RECURSIVE Take(_, _, _, _)
Take(c, g, n, acc) == IF n = 0 THEN <<acc, g>> ELSE Take(c, NextGen(c, g), n - 1, Append(acc, ByteOf(c, g)))
Msg(c, n) == Take(c, Gen0(c, n), n, <<>>)[1]

VARIABLES len, kind, g, rem, h, phase     \* phase \in {"absorb", "done"}
vars == <<len, kind, g, rem, h, phase>>

Init == /\ len \in Lens /\ kind \in Kinds
        /\ g = Gen0(kind, len) /\ rem = len /\ h = H0 /\ phase = "absorb"

\* a full block of message bytes is available
Absorb ==
  /\ phase = "absorb" /\ rem >= 64
  /\ LET t == Take(kind, g, 64, <<>>) IN
       /\ h' = Block(h, t[1]) /\ g' = t[2]
  /\ rem' = rem - 64
  /\ UNCHANGED <<len, kind, phase>>

FitsOne(r) == IF "PadFits56" \in Mut THEN r <= 56 ELSE r <= 55
Bits(n)    == IF "LenInBytes" \in Mut THEN LenField(n \div 8) ELSE LenField(n)

\* the tail, 0x80 and the length fit into one block
FinishOne ==
  /\ phase = "absorb" /\ rem < 64 /\ FitsOne(rem)
  /\ LET t == Take(kind, g, rem, <<>>)
         b == SubSeq(t[1] \o <<128>> \o Zeros(IF rem <= 55 THEN 55 - rem ELSE 0), 1, 56) \o Bits(len)
     IN /\ h' = Block(h, b) /\ g' = t[2]
  /\ rem' = 0 /\ phase' = "done"
  /\ UNCHANGED <<len, kind>>

\* they do not: the tail and 0x80 fill one block, the length goes into a second one
FinishTwo ==
  /\ phase = "absorb" /\ rem < 64 /\ ~FitsOne(rem)
  /\ LET t  == Take(kind, g, rem, <<>>)
         b1 == t[1] \o <<128>> \o Zeros(63 - rem)
         b2 == Zeros(56) \o Bits(len)
     IN /\ h' = Block(Block(h, b1), b2) /\ g' = t[2]
  /\ rem' = 0 /\ phase' = "done"
  /\ UNCHANGED <<len, kind>>

Next == Absorb \/ FinishOne \/ FinishTwo
Spec == Init /\ [][Next]_vars /\ WF_vars(Next)

IsWord(w) == w[1] \in 0..65535 /\ w[2] \in 0..65535
TypeOK == /\ \A i \in 1..5 : IsWord(h[i])
          /\ rem \in 0..len /\ (phase = "done" => rem = 0)
          /\ (len - rem) % 64 = 0 \/ phase = "done"
\* the streaming machine computes the RFC's function
StreamIsSha1 == phase = "done" => h = Sha1H(Msg(kind, len))
Terminates == <>(phase = "done")

--------------------------------------------------------------------------------
(* RFC 3174 section 7.3 test vectors (TEST1, TEST2, TEST4) and the empty message.  TEST3 (10^6 x 'a') is
   run by the streaming machine in the thorough tier (MC_Sha1_million.cfg, invariant Test3). *)
Hex(s) == s   \* digests are written as 20 byte values
AbcMsg  == <<97, 98, 99>>
Test2Msg == <<97,98,99,100, 98,99,100,101, 99,100,101,102, 100,101,102,103, 101,102,103,104, 102,103,104,105,
              103,104,105,106, 104,105,106,107, 105,106,107,108, 106,107,108,109, 107,108,109,110,
              108,109,110,111, 109,110,111,112, 110,111,112,113>>
Test4Msg == [i \in 1..640 |-> 48 + ((i - 1) % 8)]    \* "01234567" x 80

Test1Digest == <<169,153,62,54, 71,6,129,106, 186,62,37,113, 120,80,194,108, 156,208,216,157>>
Test2Digest == <<132,152,62,68, 28,59,210,110, 186,174,74,161, 249,81,41,229, 229,70,112,241>>
Test3Digest == <<52,170,151,60, 212,196,218,164, 246,30,235,43, 219,173,39,49, 101,52,1,111>>
Test4Digest == <<222,163,86,162, 205,221,144,199, 167,236,237,197, 235,181,99,147, 79,70,4,82>>
EmptyDigest == <<218,57,163,238, 94,107,75,13, 50,85,191,239, 149,96,24,144, 175,216,7,9>>

RfcVectors == /\ Sha1(AbcMsg) = Test1Digest
              /\ Sha1(Test2Msg) = Test2Digest
              /\ Sha1(Test4Msg) = Test4Digest
              /\ Sha1(<<>>) = EmptyDigest
Test3 == (phase = "done" /\ kind = 4 /\ len = 1000000) => DigestBytes(h) = Test3Digest
=============================================================================
