CONSTANTS
  MaxLen = 200
  EmitMax = 200
  Lens <- LenRange
  Kinds = {1, 2}
  Mut = {}
INIT Init
NEXT Next
INVARIANTS GenInv
CHECK_DEADLOCK FALSE
