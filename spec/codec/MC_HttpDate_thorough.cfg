CONSTANTS
  LastYear = 9999
  Mode = "day"
  Mut = {}
  FullUntil = 9999
INIT Init
NEXT Next
INVARIANTS TypeOK JumpAgrees YearAgrees AlgoAgrees Anchors GenMonthByDays
CHECK_DEADLOCK FALSE
