CONSTANTS
  Routes = {"/a", "/b"}
  Hosts = {0}
  MCSizes = {1, 2, 3}
  MCIds = {1}
  Payloads <- MCPayloads
  Limit = 2
  TimeLimit = 1
  Ticks = {1}
  Dev = {}
  MaxClock = 0
  MaxDepth = 0
INIT Init
NEXT Next
VIEW ViewGen
ACTION_CONSTRAINT EmitEdge
CHECK_DEADLOCK FALSE
