CONSTANTS
  Threads = {1, 2}
  Routes = {"/a"}
  Hosts = {0}
  Files = {"f"}
  FileOf <- MCFileOf
  StripSlash <- MCStrip
  MCSizes = {1, 2, 3}
  MCIds = {1, 2}
  Payloads <- MCPayloads
  Limit = 2
  TimeLimit = 1
  Ticks = {1}
  Dev = {}
  RewriteInFlight = FALSE
  MaxWrites = 2
  MaxClock = 2
SPECIFICATION SSpec
CONSTRAINT ClockBound
VIEW SView
INVARIANTS Inv_Size Inv_TotalExact Inv_TotalBound Inv_Coherent Inv_Unique Inv_MissServesFile Inv_Fresh Inv_CachedWasFile
PROPERTIES Act_ImmediatelyRetrievable Act_HandlerCoherent
CHECK_DEADLOCK FALSE
