CONSTANTS
  Routes <- TRoutes
  Hosts <- THosts
  Payloads = {}
  Limit <- TLimit
  TimeLimit <- TTimeLimit
  Ticks = {1}
  Dev = {}
SPECIFICATION TSpec
CONSTRAINT Live
INVARIANTS Inv_Size Inv_TotalExact Inv_TotalBound Inv_Coherent Inv_Unique
PROPERTIES Act_ImmediatelyRetrievable Act_GetCoherent
POSTCONDITION Accepted
CHECK_DEADLOCK FALSE
