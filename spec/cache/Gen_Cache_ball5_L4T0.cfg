CONSTANTS
  Routes = {"/a", "/b", "/c"}
  Hosts = {0, 1}
  MCSizes = {0, 2, 4}
  MCIds = {1, 2}
  Payloads <- MCPayloads
  Limit = 4
  TimeLimit = 0
  Ticks = {1}
  Dev = {}
  MaxClock = 0
  MaxDepth = 4
INIT Init
NEXT GenNextIdRule
VIEW ViewGen
ACTION_CONSTRAINT EmitEdgeBounded
CHECK_DEADLOCK FALSE
