CONSTANTS
  Routes = {"/a", "/b"}
  Hosts = {0, 1}
  MCSizes = {0, 1, 2}
  MCIds = {1, 2}
  Payloads <- MCPayloads
  Limit = 2
  TimeLimit = 1
  Ticks = {1}
  Dev = {"NeverFitsGe"}
  MaxClock = 0
  MaxDepth = 0
  SimDepth = 40
INIT SimInit
NEXT SimNext
INVARIANT SimDump
CHECK_DEADLOCK FALSE
