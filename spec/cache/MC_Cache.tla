------------------------------ MODULE MC_Cache ------------------------------
(* TLC-only definitions for Cache.tla: bounded payload sets, the view that makes the state graph
   finite, and the edge printer used by the Gen_* configurations. *)
EXTENDS Cache, Json

CONSTANTS MCSizes, MCIds, MaxClock, MaxDepth

MimeOf(i) == IF i = 1 THEN "text/html" ELSE IF i = 2 THEN "image/png" ELSE "text/css"
MCPayloads == { [size |-> s, id |-> i, mime |-> MimeOf(i)] : s \in MCSizes, i \in MCIds }

\* Behaviour depends on stored times only through the age now - t, and only up to TimeLimit + 1
\* ("stale").  Ages are what the view and the printed states carry, so the complete graph is finite
\* although the clock is not bounded.
Age(t, now) == IF now - t > TimeLimit THEN TimeLimit + 1 ELSE now - t
NormEntries(es, now) ==
  [i \in 1..Len(es) |-> <<es[i].route, es[i].host, es[i].size, es[i].id, es[i].mime, Age(es[i].t, now)>>]
NormRes(g, now) == IF g.hit THEN [hit |-> TRUE, size |-> g.size, id |-> g.id, mime |-> g.mime, age |-> now - g.t]
                   ELSE [hit |-> FALSE, size |-> 0, id |-> 0, mime |-> "", age |-> 0]
NormLast(now) == [k \in Keys |-> NormRes(last[k], now)]
NormLastCapped(now) ==
  [k \in Keys |-> IF last[k].hit THEN [hit |-> TRUE, size |-> last[k].size, id |-> last[k].id, age |-> Age(last[k].t, now)]
                  ELSE [hit |-> FALSE, size |-> 0, id |-> 0, age |-> 0]]

\* exhaustive configs: ghost `last` is part of the view (Inv_Coherent reads it), `op` is not
ViewMC  == <<NormEntries(entries, clock), total, NormLastCapped(clock)>>
\* generation configs: exactly the state of the real object
ViewGen == <<NormEntries(entries, clock), total>>

ClockBound == clock <= MaxClock
DepthBound == TLCGet("level") <= MaxDepth

\* Generation for the long lock-step runs: the content id of a Set is not a free choice but the one
\* that differs from the entry it replaces (1 when the key has no entry), which keeps the alphabet at
\* |Routes| x |Hosts| x |Sizes| sets and still makes every replacement observable.
NextId(es, r, h) == LET i == Pos(es, r, h) IN IF i = 0 THEN 1 ELSE IF es[i].id = 1 THEN 2 ELSE 1
GenNextIdRule ==
  \/ \E r \in Routes, h \in Hosts, s \in MCSizes :
        LET i == NextId(entries, r, h) IN Set(r, h, [size |-> s, id |-> i, mime |-> MimeOf(i)])
  \/ \E r \in Routes, h \in Hosts : Get(r, h)
  \/ \E d \in Ticks : Tick(d)

\* One line per transition: [source, action, result, panicked, target, lookups], all numbers (no
\* strings, so the line needs no escaping):
\*    state   = [[[route#, host, size, id, age], ...], total]
\*    action  = [op, route#, host, size, id, d]   op: 0 set, 1 get, 2 tick
\*    result  = [hit, size, id, age]              (of a get; zeros otherwise)
\*    lookups = [[route#, host, hit, size, id, age], ...]  GetRes of the TARGET state for every key that
\*              hits there (a key not listed must miss): the observable projection of the target state
\* MIME types are not printed: in every MC/Gen configuration mime = MimeOf(id).
RouteIx(r) == IF r = "/a" THEN 1 ELSE IF r = "/b" THEN 2 ELSE IF r = "/c" THEN 3 ELSE IF r = "/d" THEN 4 ELSE 0
OpIx(n) == IF n = "set" THEN 0 ELSE IF n = "get" THEN 1 ELSE 2
B(x) == IF x THEN 1 ELSE 0
StateOut(es, tot, now) ==
  <<[i \in 1..Len(es) |-> <<RouteIx(es[i].route), es[i].host, es[i].size, es[i].id, Age(es[i].t, now)>>], tot>>
ResOut(g, now) == IF g.hit THEN <<1, g.size, g.id, now - g.t>> ELSE <<0, 0, 0, 0>>
ObsOut(es, now) ==
  { <<RouteIx(k[1]), k[2]>> \o ResOut(GetRes(es, k[1], k[2], now), now) :
       k \in { kk \in Keys : GetRes(es, kk[1], kk[2], now).hit } }
EdgeOut ==
  <<StateOut(entries, total, clock),
    <<OpIx(op'.name), RouteIx(op'.route), op'.host, op'.size, op'.id, op'.d>>,
    ResOut(op'.res, clock'), B(op'.panic),
    StateOut(entries', total', clock'), ObsOut(entries', clock')>>
EmitEdge     == PrintT("E" \o ToJson(EdgeOut))
\* (the leading E keeps the driver from decoding millions of lines; it passes them to the harness as text)
\* depth-bounded generation: print the edge, then keep the successor only while the SOURCE state is at
\* most MaxDepth - 1 steps from the initial state (TLC's level of the initial state is 1; breadth-first
\* levels are exact only with one worker).  All sequences of MaxDepth + 1 operations stay inside.
EmitEdgeBounded == EmitEdge /\ TLCGet("level") <= MaxDepth
=============================================================================
