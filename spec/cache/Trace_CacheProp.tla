--------------------------- MODULE Trace_CacheProp ---------------------------
(* The property C16 by itself, as a judge of a recorded history - independent of HOW the cache decides
   what to evict.  Cache.tla models this implementation (FIFO eviction, eviction before replacement);
   a log that Cache.tla cannot explain is re-examined here, so that an implementation that changes its
   eviction policy but keeps the property is not reported as a violation of C16 (DESIGN 4.2), while
   anything the property forbids still is.  Same log format as Trace_Cache.tla.

   A history satisfies C16 iff
     Coherent      every lookup that hits returns exactly the payload (bytes, MIME type) of the latest
                   `set` of that (route, host), and that set is not older than the time limit at some
                   instant of the lookup's clock window (a panicking lookup is logged as a hit with an
                   impossible payload);
     Immediate     a lookup of the key just stored (next record, clock windows all equal to one instant)
                   hits, when the stored size is within the limit; storing such an item does not panic
                   (a `set` record with aux = 2 is a call that panicked);
     SizeBound     at every position the entries that are still going to be returned later (the next
                   record concerning their key that is a `set` or a hitting `get` is a hitting `get`)
                   have a total size within the limit - i.e. SOME retention schedule with "total size of
                   retrievable entries <= limit" explains the hits.
   The replay is deterministic: a forward pass (Coherent, Immediate) followed by a backward pass
   (SizeBound); the indices of offending records are collected and printed. *)
EXTENDS Integers, Sequences, FiniteSets, TLC, Json, IOUtils

Rec == ndJsonDeserialize(IOEnv.TRACE)
N == Len(Rec)
Limit == Rec[1].limit
TimeLimit == Rec[1].tl

Key(e) == <<e.route, e.host>>
Keys == LET R == Rec IN { Key(R[i]) : i \in 1..Len(R) }
NoLast == [set |-> FALSE, size |-> 0, id |-> 0, mime |-> "", tlo |-> 0, thi |-> 0]

VARIABLES l,      \* forward position (1..N+1)
          last,   \* forward pass: latest `set` per key
          m,      \* backward position (N..0), used once the forward pass is finished
          need,   \* backward pass: need[k] = size of the entry of k that a later lookup returns before k is
                  \*                stored again (-1: none) - the entries that must be retained at this point
          bad
vars == <<l, last, m, need, bad>>

Init == /\ l = 1 /\ last = [k \in Keys |-> NoLast] /\ bad = <<>>
        /\ m = N /\ need = [k \in Keys |-> -1]

\* Only what the statement names is compared: the bytes (length + hash) and the MIME type of the hit, and
\* its age - measured from the clock window of the `set` that stored it, NOT from the item's cache_time
\* field (how an implementation represents the time of an entry, and which key strings it keeps inside
\* the item, is its own business: rt and aux = 1 are not looked at).
Coherent(e) ==
  e.hit => LET s == last[Key(e)]
           IN  /\ s.set /\ e.rsize = s.size /\ e.rhash = s.id /\ e.rmime = s.mime
               /\ e.lo - s.thi <= TimeLimit

\* the record before l is the set of the same key, and no time can have passed
Immediate(e) ==
  (l > 1 /\ Rec[l - 1].ev = "set" /\ Rec[l - 1].aux = 0 /\ Key(Rec[l - 1]) = Key(e) /\ Rec[l - 1].size <= Limit
         /\ Rec[l - 1].lo = Rec[l - 1].hi /\ e.lo = e.hi /\ e.lo = Rec[l - 1].lo)
    => e.hit

Note(why, at) == IF Len(bad) >= 20 THEN bad ELSE Append(bad, [at |-> at, why |-> why])

Forward ==
  /\ l <= N
  /\ l' = l + 1
  /\ UNCHANGED <<m, need>>
  /\ LET e == Rec[l]
     IN  IF e.ev = "reset"
         THEN last' = [k \in Keys |-> NoLast] /\ bad' = bad
         ELSE IF e.ev = "set" /\ e.aux = 2
         THEN /\ last' = last
              /\ bad' = IF e.size > Limit THEN bad ELSE Note("SetPanicked", l)
         ELSE IF e.ev = "set"
         THEN /\ last' = [last EXCEPT ![Key(e)] = [set |-> TRUE, size |-> e.size, id |-> e.hash, mime |-> e.mime,
                                                    tlo |-> e.lo, thi |-> e.hi]]
              /\ bad' = bad
         ELSE /\ last' = last
              /\ bad' = IF ~Coherent(e) THEN Note("Coherent", l)
                        ELSE IF ~Immediate(e) THEN Note("Immediate", l)
                        ELSE bad

RECURSIVE SumNeed(_, _)
SumNeed(f, K) == IF K = {} THEN 0 ELSE LET k == CHOOSE k \in K : TRUE IN f[k] + SumNeed(f, K \ {k})

\* backwards: right after the `set` at position m the entries that later lookups return (before their
\* keys are stored again) are all in the cache at once
Backward ==
  /\ l = N + 1 /\ m >= 1
  /\ m' = m - 1
  /\ UNCHANGED <<l, last>>
  /\ LET e == Rec[m]
     IN  IF e.ev = "reset"
         THEN need' = [k \in Keys |-> -1] /\ bad' = bad
         ELSE IF e.ev = "get" /\ e.hit
         THEN need' = [need EXCEPT ![Key(e)] = e.rsize] /\ bad' = bad
         ELSE IF e.ev = "set" /\ e.aux = 0
         THEN /\ bad' = IF SumNeed(need, { k \in Keys : need[k] >= 0 }) <= Limit THEN bad ELSE Note("SizeBound", m)
              /\ need' = [need EXCEPT ![Key(e)] = -1]
         ELSE need' = need /\ bad' = bad

Next == Forward \/ Backward
Spec == Init /\ [][Next]_vars

AllAgree == (l = N + 1 /\ m = 0) =>
              \/ bad = <<>>
              \/ PrintT(ToJson([property_rejects |-> [i \in 1..Len(bad) |-> [at |-> bad[i].at, why |-> bad[i].why, event |-> Rec[bad[i].at]]]])) /\ FALSE
=============================================================================
