----------------------------- MODULE Trace_Cache -----------------------------
(* Code -> spec direction for C16 (method C).  The harness drives the real Cache through an
   RwLock<Cache> from 1..8 threads exactly as static.rs does (write guard around set, read guard around
   get), logs one record per call *while the guard is held*, numbered by one atomic counter, and
   brackets each call with two readings of the clock (lo, hi).  This module replays the log with the
   operators of Cache.tla: a `set` record is the Set action at some time now \in lo..hi, a `get` record
   must report exactly GetRes of the current model state at some now \in lo..hi.  Payload identity in
   the log is (length, 31-bit FNV of the bytes, MIME string).

   All records of one file share limit / time limit (taken from the first record); `reset` starts a new
   run on an empty cache.  The invariants of Cache.tla are evaluated in every state of the replay.
   A branch in which a record cannot be explained prints what the model predicts and dies; the log
   is accepted iff some branch consumes every record (POSTCONDITION; register 1 holds the furthest
   position reached by a live branch). *)
EXTENDS Cache, Json, IOUtils

Rec == ndJsonDeserialize(IOEnv.TRACE)
N == Len(Rec)

TLimit     == Rec[1].limit
TTimeLimit == Rec[1].tl
TRoutes    == LET R == Rec IN { R[i].route : i \in 1..Len(R) }
THosts     == LET R == Rec IN { R[i].host : i \in 1..Len(R) }

VARIABLES l, dead
tvars == <<entries, total, clock, last, op, l, dead>>

P(e) == [size |-> e.size, id |-> e.hash, mime |-> e.mime]
Observed(e) == IF e.hit THEN [hit |-> TRUE, size |-> e.rsize, id |-> e.rhash, mime |-> e.rmime, t |-> e.rt]
               ELSE NoItem

TInit == Init /\ l = 1 /\ dead = FALSE /\ TLCSet(1, 1)

TReset(e) ==
  /\ entries' = <<>> /\ total' = 0 /\ clock' = 0
  /\ last' \in [Keys -> {NoItem}]
  /\ op' = Op("init", "", 0, NoPayload, 0, NoItem, FALSE)
  /\ dead' = FALSE

\* aux = 2 on a `set` record: the call panicked
TSet(e) ==
  IF (e.aux = 2) = SetRes(entries, total, e.route, e.host, P(e), e.lo)[3]
  THEN /\ \E now \in e.lo..e.hi :
            /\ clock' = now
            /\ LET s == SetRes(entries, total, e.route, e.host, P(e), now)
               IN  /\ entries' = s[1] /\ total' = s[2]
                   /\ last' = IF s[3] THEN last ELSE [last EXCEPT ![<<e.route, e.host>>] = Hit(P(e), now)]
                   /\ op' = Op("set", e.route, e.host, P(e), 0, NoItem, s[3])
       /\ dead' = FALSE
  ELSE /\ PrintT(ToJson([mismatch_at |-> l, event |-> e,
                         model_predicts |-> {[hit |-> FALSE, size |-> 0, id |-> 0, mime |-> IF e.aux = 2 THEN "no panic" ELSE "panic", t |-> 0]},
                         model_entries |-> entries]))
       /\ dead' = TRUE
       /\ UNCHANGED <<entries, total, clock, last, op>>

\* the times at which the model explains the observed lookup (aux = 1: the returned item carried
\* another key than the one asked for)
Explains(e) == { now \in e.lo..e.hi : e.aux = 0 /\ Observed(e) = GetRes(entries, e.route, e.host, now) }

TGet(e) ==
  IF Explains(e) # {}
  THEN /\ \E now \in Explains(e) : clock' = now
       /\ op' = Op("get", e.route, e.host, NoPayload, 0, Observed(e), FALSE)
       /\ dead' = FALSE
       /\ UNCHANGED <<entries, total, last>>
  ELSE /\ PrintT(ToJson([mismatch_at |-> l, event |-> e,
                         model_predicts |-> { GetRes(entries, e.route, e.host, now) : now \in e.lo..e.hi },
                         model_entries |-> entries]))
       /\ dead' = TRUE
       /\ UNCHANGED <<entries, total, clock, last, op>>

TNext ==
  /\ l <= N
  /\ l' = l + 1
  /\ LET e == Rec[l]
     IN  \/ e.ev = "reset" /\ TReset(e)
         \/ e.ev = "set" /\ TSet(e)
         \/ e.ev = "get" /\ TGet(e)

TSpec == TInit /\ [][TNext]_tvars

\* CONSTRAINT: dead branches are not continued; live ones record how far they got
\* (once some branch has consumed the whole log the remaining branches are not explored any further)
Live == ~dead /\ TLCGet(1) <= N /\ TLCSet(1, IF l > TLCGet(1) THEN l ELSE TLCGet(1))

\* POSTCONDITION
Accepted ==
  \/ TLCGet(1) = N + 1
  \/ /\ PrintT(ToJson([rejected_at |-> TLCGet(1), event |-> Rec[IF TLCGet(1) <= N THEN TLCGet(1) ELSE N]]))
     /\ FALSE
=============================================================================
