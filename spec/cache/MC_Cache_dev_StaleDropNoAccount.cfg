CONSTANTS
  Routes = {"/a"}
  Hosts = {0, 1}
  MCSizes = {0, 1, 2}
  MCIds = {1, 2}
  Payloads <- MCPayloads
  Limit = 2
  TimeLimit = 1
  Ticks = {1}
  Dev = {"StaleDropNoAccount"}
  MaxClock = 0
  MaxDepth = 0
SPECIFICATION Spec
VIEW ViewMC
INVARIANTS TypeOK Inv_Size Inv_TotalExact Inv_TotalBound Inv_Coherent Inv_Unique
PROPERTIES Act_ImmediatelyRetrievable Act_GetCoherent
CHECK_DEADLOCK FALSE
