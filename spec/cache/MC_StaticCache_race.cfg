CONSTANTS
  Threads = {1, 2}
  Routes = {"/a"}
  Hosts = {0}
  Files = {"f"}
  FileOf <- MCFileOf
  StripSlash <- MCStrip
  MCSizes = {1}
  MCIds = {1, 2}
  Payloads <- MCPayloads
  Limit = 2
  TimeLimit = 0
  Ticks = {1}
  Dev = {}
  RewriteInFlight = TRUE
  MaxWrites = 3
  MaxClock = 2
SPECIFICATION SSpec
CONSTRAINT ClockBound
VIEW SView
INVARIANT Inv_Fresh
CHECK_DEADLOCK FALSE
