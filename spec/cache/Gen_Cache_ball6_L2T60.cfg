CONSTANTS
  Routes = {"/a", "/b", "/c"}
  Hosts = {0, 1}
  MCSizes = {0, 1, 2}
  MCIds = {1, 2}
  Payloads <- MCPayloads
  Limit = 2
  TimeLimit = 60
  Ticks = {30, 31}
  Dev = {}
  MaxClock = 0
  MaxDepth = 5
INIT Init
NEXT GenNextIdRule
VIEW ViewGen
ACTION_CONSTRAINT EmitEdgeBounded
CHECK_DEADLOCK FALSE
