--------------------------- MODULE Trace_StaticProp ---------------------------
(* The handler-level reading of C16 by itself, as a judge of a recorded handler history (same log
   format as Trace_StaticCache.tla), independent of how the cache evicts: files change only between
   requests, and every response must be
     - 301 / 404 for a target that resolves to a directory without slash / to nothing, 200 otherwise;
     - for 200: exactly (length, bytes, MIME type) of some content the file of that target has had, and
       that content was still the file's content at some moment not earlier than TimeLimit seconds
       before the call started (nothing older than the time limit is ever served), and had already been
       written when the call ended.
   Deterministic replay; offending records are collected and printed.  Used to re-examine a log that
   StaticCache.tla (the model of this implementation) cannot explain. *)
EXTENDS Integers, Sequences, TLC, Json, IOUtils

Rec == ndJsonDeserialize(IOEnv.TRACE)
N == Len(Rec)
TimeLimit == Rec[1].tl
Files   == LET R == Rec IN { R[i].file : i \in { j \in 1..Len(R) : R[j].ev = "write" } }
Threads == LET R == Rec IN { R[i].thr : i \in 1..Len(R) }

VARIABLES l, fhist, cur, bad
vars == <<l, fhist, cur, bad>>

NoCur == [file |-> "-", lo |-> 0, hi |-> 0, open |-> FALSE]
Init == l = 1 /\ fhist = [f \in Files |-> <<>>] /\ cur = [t \in Threads |-> NoCur] /\ bad = <<>>

Good(e, c) ==
  IF c.file = "-" THEN e.status = 404
  ELSE IF c.file = "/" THEN e.status = 301
  ELSE /\ e.status = 200
       /\ LET H == fhist[c.file]
          IN  \E i \in 1..Len(H) :
                 /\ H[i].size = e.size /\ H[i].id = e.hash /\ H[i].mime = e.mime
                 /\ H[i].from <= c.hi
                 /\ (i = Len(H) \/ H[i + 1].from >= c.lo - TimeLimit)

Next ==
  /\ l <= N
  /\ l' = l + 1
  /\ LET e == Rec[l]
     IN  IF e.ev = "reset"
         THEN fhist' = [f \in Files |-> <<>>] /\ cur' = [t \in Threads |-> NoCur] /\ bad' = bad
         ELSE IF e.ev = "write"
         THEN /\ fhist' = [fhist EXCEPT ![e.file] = Append(@, [size |-> e.size, id |-> e.hash, mime |-> e.mime, from |-> e.lo])]
              /\ UNCHANGED <<cur, bad>>
         ELSE IF e.ev = "start"
         THEN /\ cur' = [cur EXCEPT ![e.thr] = [file |-> e.file, lo |-> e.lo, hi |-> e.hi, open |-> TRUE]]
              /\ UNCHANGED <<fhist, bad>>
         ELSE /\ cur' = [cur EXCEPT ![e.thr].open = FALSE]
              /\ bad' = IF (cur[e.thr].open /\ Good(e, cur[e.thr])) \/ Len(bad) >= 20 THEN bad ELSE Append(bad, l)
              /\ UNCHANGED fhist
Spec == Init /\ [][Next]_vars

AllAgree == (l = N + 1) =>
              \/ bad = <<>>
              \/ PrintT(ToJson([property_rejects |-> [i \in 1..Len(bad) |-> [at |-> bad[i], event |-> Rec[bad[i]]]]])) /\ FALSE
=============================================================================
