--------------------------- MODULE Trace_StaticProp ---------------------------
(* The handler-level reading of C16 by itself, as a judge of a recorded handler history (same log
   format as Trace_StaticCache.tla), independent of how the cache evicts: files change only between
   requests, and every response must be
     - for a target that resolves to a file: 200 with exactly (length, bytes) of some content that file
       has had, which was still the file's content at some moment not earlier than TimeLimit seconds
       before the call started (nothing older than the time limit is ever served) and had already been
       written when the call ended; the Content-Type is the same in every 200 answer for the same
       (uri, host) - whether it comes from the cache or from the file (WHICH type an extension maps to is
       not this property's business, so the harness' own table is not consulted here);
     - for a target that resolves to nothing / to a directory named without its slash: anything but a
       200 (a 200 there can only be another path's cached body; whether the answer is 301, 404 or
       another status is not this property's business).
     - a `sweep` record (the bytes Cache::get returned for all keys at one instant, added up by an observer that
       held the read guard) never exceeds the size limit - also while handlers race.
   Deterministic replay; offending records are collected and printed.  Used to re-examine a log that
   StaticCache.tla (the model of this implementation) cannot explain. *)
EXTENDS Integers, Sequences, TLC, Json, IOUtils

Rec == ndJsonDeserialize(IOEnv.TRACE)
N == Len(Rec)
TimeLimit == Rec[1].tl
Files   == LET R == Rec IN { R[i].file : i \in { j \in 1..Len(R) : R[j].ev = "write" } }
Threads == LET R == Rec IN { R[i].thr : i \in 1..Len(R) }

UKeys   == LET R == Rec IN { <<R[i].uri, R[i].host>> : i \in 1..Len(R) }

VARIABLES l, fhist, cur, kmime, bad
vars == <<l, fhist, cur, kmime, bad>>

NoCur == [file |-> "-", lo |-> 0, hi |-> 0, open |-> FALSE]
Init == /\ l = 1 /\ fhist = [f \in Files |-> <<>>] /\ cur = [t \in Threads |-> NoCur] /\ bad = <<>>
        /\ kmime = [k \in UKeys |-> ""]

Good(e, c) ==
  IF c.file \in {"-", "/"} THEN e.status # 200
  ELSE /\ e.status = 200
       /\ kmime[<<e.uri, e.host>>] \in {"", e.mime}
       /\ LET H == fhist[c.file]
          IN  \E i \in 1..Len(H) :
                 /\ H[i].size = e.size /\ H[i].id = e.hash
                 /\ H[i].from <= c.hi
                 /\ (i = Len(H) \/ H[i + 1].from >= c.lo - TimeLimit)

Next ==
  /\ l <= N
  /\ l' = l + 1
  /\ LET e == Rec[l]
     IN  IF e.ev = "reset"
         THEN /\ fhist' = [f \in Files |-> <<>>] /\ cur' = [t \in Threads |-> NoCur] /\ bad' = bad
              /\ kmime' = [k \in UKeys |-> ""]
         ELSE IF e.ev = "write"
         THEN /\ fhist' = [fhist EXCEPT ![e.file] = Append(@, [size |-> e.size, id |-> e.hash, mime |-> e.mime, from |-> e.lo])]
              /\ UNCHANGED <<cur, bad, kmime>>
         ELSE IF e.ev = "start"
         THEN /\ cur' = [cur EXCEPT ![e.thr] = [file |-> e.file, lo |-> e.lo, hi |-> e.hi, open |-> TRUE]]
              /\ UNCHANGED <<fhist, bad, kmime>>
         ELSE IF e.ev = "sweep"     \* size = bytes retrievable at one instant (summed under the read guard): never above the limit
         THEN /\ bad' = IF e.size <= e.limit \/ Len(bad) >= 20 THEN bad ELSE Append(bad, l)
              /\ UNCHANGED <<fhist, cur, kmime>>
         ELSE /\ cur' = [cur EXCEPT ![e.thr].open = FALSE]
              /\ bad' = IF (cur[e.thr].open /\ Good(e, cur[e.thr])) \/ Len(bad) >= 20 THEN bad ELSE Append(bad, l)
              /\ kmime' = IF e.status = 200 /\ kmime[<<e.uri, e.host>>] = ""
                          THEN [kmime EXCEPT ![<<e.uri, e.host>>] = e.mime] ELSE kmime
              /\ UNCHANGED fhist
Spec == Init /\ [][Next]_vars

AllAgree == (l = N + 1) =>
              \/ bad = <<>>
              \/ PrintT(ToJson([property_rejects |-> [i \in 1..Len(bad) |-> [at |-> bad[i], event |-> Rec[bad[i]]]]])) /\ FALSE
=============================================================================
