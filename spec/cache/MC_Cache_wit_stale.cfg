CONSTANTS
  Routes = {"/a", "/b", "/c"}
  Hosts = {0}
  MCSizes = {0, 1, 2}
  MCIds = {1}
  Payloads <- MCPayloads
  Limit = 2
  TimeLimit = 1
  Ticks = {1}
  Dev = {}
  MaxClock = 0
  MaxDepth = 0
SPECIFICATION Spec
VIEW ViewMC
INVARIANT Never_StaleMiss
CHECK_DEADLOCK FALSE
