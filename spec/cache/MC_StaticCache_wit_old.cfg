CONSTANTS
  Threads = {1}
  Routes = {"/a"}
  Hosts = {0}
  Files = {"f"}
  FileOf <- MCFileOf
  StripSlash <- MCStrip
  MCSizes = {1}
  MCIds = {1, 2}
  Payloads <- MCPayloads
  Limit = 2
  TimeLimit = 1
  Ticks = {1}
  Dev = {}
  RewriteInFlight = FALSE
  MaxWrites = 2
  MaxClock = 2
SPECIFICATION SSpec
CONSTRAINT ClockBound
VIEW SView
INVARIANT Never_ServedOldContent
CHECK_DEADLOCK FALSE
