------------------------------- MODULE Cache -------------------------------
(* The file cache of humphrey-server (humphrey-server/src/server/cache.rs), property C16.

   State of the real object            abstract state here
     data: VecDeque<CachedItem>        entries : Seq of [route, host, size, id, mime, t]
     cache_size                        total
     SystemTime::now() (seconds)       clock
     cache_limit, cache_time_limit     constants Limit, TimeLimit

   A payload is abstracted to [size, id, mime]: `size` bytes whose content is determined by `id`
   (the harness owns the mapping id -> bytes), plus the MIME type.  One action per public call
   (each call is one critical section of the RwLock in static.rs):

     Set(r,h,p)   Cache::set  - evict from the FRONT while total + size > Limit (the old entry of
                                the same key is still counted while evicting), remove the entry of the
                                same (route,host), push to the back with t = now
     Get(r,h)     Cache::get  - first entry with that (route,host); None when now - t > TimeLimit
     Tick(d)      the wall clock advances by d seconds
   The eviction loop has no emptiness test: when the queue is exhausted and the loop condition still
   holds, `self.data[0]` panics.  With an exact counter that happens only for size > Limit, which the
   property does not speak of and the handlers never do (size_limit >= len guard in
   inner_file_handler); the model records it as op.panic with the cache left emptied, so that the
   observation can be replayed (Gen_Cache_over.cfg).  Within the limit, Act_ImmediatelyRetrievable
   demands that a set does not panic.

   `last` is a ghost: the most recent Set per key (what the property calls "most recently stored").
   `op` describes the step just taken (name, arguments, result) - the observable of the step.

   Dev: the code has no known deviation for C16 (Dev = {} is the code as it stands).  The names below
   are hypothetical faults used only by the sensitivity configurations to show that the invariants are
   not vacuous:
     EvictIgnoresNew    eviction tests total > Limit instead of total + size > Limit
     StaleGe            staleness tests >= instead of >
     StaleOff           staleness is never tested
     RouteOnly          keys are compared by route only, the host is ignored
     NoSubOnReplace     the replaced entry's size is not subtracted from total
     NoRemoveOnReplace  the replaced entry is neither removed nor subtracted
     PopBack            eviction subtracts the front entry's size but removes the back entry
     EvictGe            eviction tests total + size >= Limit (an item of exactly the free space evicts)
     NeverFitsGe        an early return for items that "can never fit" tests size >= Limit
     SameLenKeepsTime   an entry overwritten with a value of the same length is updated in place and
                        keeps its old cache time
     StaleDropNoAccount stale entries are dropped at the start of set without subtracting their sizes
     StaleIndexAfterEvict  the index of the entry to replace is taken before the eviction loop (which only
                        makes room for the growth) and used after it
     KeyStripsSlash     (StaticCache.tla) the handlers derive the cache key by stripping trailing slashes *)
EXTENDS Integers, Sequences, FiniteSets, TLC

CONSTANTS Routes,      \* set of strings
          Hosts,       \* set of host indices (naturals)
          Payloads,    \* set of [size, id, mime]
          Limit,       \* cache_limit
          TimeLimit,   \* cache_time_limit (seconds)
          Ticks,       \* clock increments the environment may take in one step
          Dev

DevNames == {"EvictIgnoresNew", "StaleGe", "StaleOff", "RouteOnly", "NoSubOnReplace",
             "NoRemoveOnReplace", "PopBack", "EvictGe", "NeverFitsGe", "SameLenKeepsTime",
             "StaleDropNoAccount", "StaleIndexAfterEvict", "KeyStripsSlash"}
ASSUME Dev \subseteq DevNames
ASSUME Limit \in Nat /\ TimeLimit \in Nat /\ Ticks \subseteq (Nat \ {0})

VARIABLES entries, total, clock, last, op
vars == <<entries, total, clock, last, op>>

Keys == Routes \X Hosts

\* one record shape for every lookup result (TLC cannot compare records of different shapes)
NoItem == [hit |-> FALSE, size |-> 0, id |-> 0, mime |-> "", t |-> 0]
Hit(p, t) == [hit |-> TRUE, size |-> p.size, id |-> p.id, mime |-> p.mime, t |-> t]
Entry(r, h, p, t) == [route |-> r, host |-> h, size |-> p.size, id |-> p.id, mime |-> p.mime, t |-> t]
NoPayload == [size |-> 0, id |-> 0, mime |-> ""]
Op(name, r, h, p, d, res, panic) ==
  [name |-> name, route |-> r, host |-> h, size |-> p.size, id |-> p.id, mime |-> p.mime,
   d |-> d, res |-> res, panic |-> panic]

(***************************************************************************)
(* Pure operators: the functions the code computes.  They take the state   *)
(* as arguments so that the trace specification can reuse them.            *)
(***************************************************************************)
SameKey(e, r, h) == e.route = r /\ ("RouteOnly" \in Dev \/ e.host = h)

\* VecDeque::iter().position(..): index of the first entry with that key, 0 = none
Pos(es, r, h) ==
  LET S == { i \in 1..Len(es) : SameKey(es[i], r, h) }
  IN  IF S = {} THEN 0 ELSE CHOOSE i \in S : \A j \in S : i <= j

Stale(e, now) ==
  IF "StaleOff" \in Dev THEN FALSE
  ELSE IF "StaleGe" \in Dev THEN now - e.t >= TimeLimit
  ELSE now - e.t > TimeLimit

GetRes(es, r, h, now) ==
  LET i == Pos(es, r, h)
  IN  IF i = 0 THEN NoItem
      ELSE IF Stale(es[i], now) THEN NoItem
      ELSE [hit |-> TRUE, size |-> es[i].size, id |-> es[i].id, mime |-> es[i].mime, t |-> es[i].t]

RemoveAt(s, i) == SubSeq(s, 1, i - 1) \o SubSeq(s, i + 1, Len(s))

OverLimit(tot, sz) == IF "EvictIgnoresNew" \in Dev THEN tot > Limit
                      ELSE IF "EvictGe" \in Dev THEN tot + sz >= Limit
                      ELSE tot + sz > Limit

\* the `while` loop of Cache::set; result <<entries, total, panicked>>.  The real loop has no emptiness
\* test: data[0] panics on an empty deque (for sz <= Limit and total = sum of sizes it never gets there).
RECURSIVE Evict(_, _, _)
Evict(es, tot, sz) ==
  IF OverLimit(tot, sz)
  THEN IF es = <<>> THEN <<es, tot, TRUE>>
       ELSE IF "PopBack" \in Dev
       THEN Evict(SubSeq(es, 1, Len(es) - 1), tot - es[1].size, sz)
       ELSE Evict(Tail(es), tot - es[1].size, sz)
  ELSE <<es, tot, FALSE>>

\* the whole of Cache::set as written; result <<entries, total, panicked>>
SetAsWritten(es, tot, r, h, p, now) ==
  LET ev   == Evict(es, tot, p.size)
      es1  == ev[1]
      tot1 == ev[2]
      i    == Pos(es1, r, h)
      keep == i = 0 \/ "NoRemoveOnReplace" \in Dev
      es2  == IF keep THEN es1 ELSE RemoveAt(es1, i)
      tot2 == IF keep \/ "NoSubOnReplace" \in Dev THEN tot1 ELSE tot1 - es1[i].size
  IN  IF ev[3] THEN <<es1, tot1, TRUE>>
      ELSE <<Append(es2, Entry(r, h, p, now)), tot2 + p.size, FALSE>>

\* hypothetical fault StaleIndexAfterEvict: position and size of the old entry taken first, room made
\* only for the growth, then VecDeque::remove(old index) on the shifted queue (None when out of range)
SetStaleIndex(es, tot, r, h, p, now) ==
  LET i0     == Pos(es, r, h)
      old    == IF i0 = 0 THEN 0 ELSE es[i0].size
      growth == IF p.size > old THEN p.size - old ELSE 0
      ev     == Evict(es, tot, growth)
      es1    == ev[1]
      hitIx  == i0 # 0 /\ i0 <= Len(es1)
      es2    == IF hitIx THEN RemoveAt(es1, i0) ELSE es1
      tot2   == IF hitIx THEN ev[2] - es1[i0].size ELSE ev[2]
  IN  IF ev[3] THEN <<es1, ev[2], TRUE>>
      ELSE <<Append(es2, Entry(r, h, p, now)), tot2 + p.size, FALSE>>

SetRes(es, tot, r, h, p, now) ==
  LET i0    == Pos(es, r, h)
      fresh == SelectSeq(es, LAMBDA e : ~Stale(e, now))
  IN  IF "NeverFitsGe" \in Dev /\ p.size >= Limit THEN <<es, tot, FALSE>>
      ELSE IF "SameLenKeepsTime" \in Dev /\ i0 # 0 /\ es[i0].size = p.size
      THEN <<[es EXCEPT ![i0] = Entry(r, h, p, es[i0].t)], tot, FALSE>>
      ELSE IF "StaleDropNoAccount" \in Dev THEN SetAsWritten(fresh, tot, r, h, p, now)
      ELSE IF "StaleIndexAfterEvict" \in Dev THEN SetStaleIndex(es, tot, r, h, p, now)
      ELSE SetAsWritten(es, tot, r, h, p, now)

(***************************************************************************)
(* Actions                                                                 *)
(***************************************************************************)
Init ==
  /\ entries = <<>> /\ total = 0 /\ clock = 0
  /\ last \in [Keys -> {NoItem}]      \* (written as a set so that TLC builds an explicit function)
  /\ op = Op("init", "", 0, NoPayload, 0, NoItem, FALSE)

Set(r, h, p) ==
  /\ LET s == SetRes(entries, total, r, h, p, clock)
     IN  /\ entries' = s[1] /\ total' = s[2]
         /\ last' = IF s[3] THEN last ELSE [last EXCEPT ![<<r, h>>] = Hit(p, clock)]
         /\ op' = Op("set", r, h, p, 0, NoItem, s[3])
  /\ UNCHANGED clock

Get(r, h) ==
  /\ op' = Op("get", r, h, NoPayload, 0, GetRes(entries, r, h, clock), FALSE)
  /\ UNCHANGED <<entries, total, clock, last>>

Tick(d) ==
  /\ clock' = clock + d
  /\ op' = Op("tick", "", 0, NoPayload, d, NoItem, FALSE)
  /\ UNCHANGED <<entries, total, last>>

Next ==
  \/ \E r \in Routes, h \in Hosts, p \in Payloads : Set(r, h, p)
  \/ \E r \in Routes, h \in Hosts : Get(r, h)
  \/ \E d \in Ticks : Tick(d)

Spec == Init /\ [][Next]_vars

(***************************************************************************)
(* Properties (C16)                                                        *)
(***************************************************************************)
RECURSIVE SumSizes(_)
SumSizes(es) == IF es = <<>> THEN 0 ELSE es[1].size + SumSizes(Tail(es))

\* indices of the entries a lookup can return now
Retrievable(es, now) ==
  { i \in 1..Len(es) : Pos(es, es[i].route, es[i].host) = i /\ ~Stale(es[i], now) }
RECURSIVE SumOver(_, _)
SumOver(es, I) == IF I = {} THEN 0
                  ELSE LET i == CHOOSE i \in I : TRUE IN es[i].size + SumOver(es, I \ {i})

TypeOK ==
  /\ total \in Int /\ clock \in Nat
  /\ \A i \in 1..Len(entries) :
        /\ entries[i].route \in Routes /\ entries[i].host \in Hosts
        /\ entries[i].t \in 0..clock

\* "The total size of retrievable entries never exceeds the configured size limit"
Inv_Size == SumOver(entries, Retrievable(entries, clock)) <= Limit

\* facts about this implementation (stronger than the property): the counter is exact and bounded
Inv_TotalExact == total = SumSizes(entries)
Inv_TotalBound == total <= Limit

\* "A lookup returns either nothing or exactly the bytes and MIME type most recently stored for that
\*  same (host, path) pair; never another entry's data or data older than the time limit"
Inv_Coherent ==
  \A k \in Keys :
    LET g == GetRes(entries, k[1], k[2], clock)
    IN  g.hit => /\ g = last[k]
                 /\ clock - g.t <= TimeLimit

Inv_Unique ==
  \A i, j \in 1..Len(entries) :
    (i # j) => ~(entries[i].route = entries[j].route /\ entries[i].host = entries[j].host)

\* "an item no larger than the limit is retrievable immediately after being stored" (same clock);
\* in particular storing it does not panic
ImmediatelyRetrievable ==
  (op'.name = "set" /\ op'.size <= Limit)
     => /\ ~op'.panic
        /\ GetRes(entries', op'.route, op'.host, clock')
             = [hit |-> TRUE, size |-> op'.size, id |-> op'.id, mime |-> op'.mime, t |-> clock']
Act_ImmediatelyRetrievable == [][ImmediatelyRetrievable]_vars

\* every Get step reports what the property allows (redundant with Inv_Coherent, stated on the step)
GetCoherent ==
  (op'.name = "get" /\ op'.res.hit)
     => /\ op'.res = last[<<op'.route, op'.host>>]
        /\ clock' - op'.res.t <= TimeLimit      \* (clock' = clock in Get; the trace spec moves the clock with the step)
Act_GetCoherent == [][GetCoherent]_vars

\* vacuity witnesses (negations are checked and must be violated)
Never_Evicted   == ~(op.name = "set" /\ \E k \in Keys : last[k].hit /\ Pos(entries, k[1], k[2]) = 0)
Never_StaleMiss == ~(\E k \in Keys : Pos(entries, k[1], k[2]) # 0 /\ ~GetRes(entries, k[1], k[2], clock).hit)
=============================================================================
