-------------------------- MODULE Trace_StaticCache --------------------------
(* Code -> spec direction at handler level (C16): the harness calls the real file_handler /
   directory_handler of static.rs with a cache-enabled AppState from 1..n threads, rewrites the files
   between phases of requests, and logs
      write  file, content identity, clock                      (a file got new content)
      start  thread, uri, host, file the target resolves to, clock window [lo, hi] of the call
      end    thread, status, body identity, Content-Type
   with one atomic sequence number per record.  What happens inside a call is not logged: the steps
   Req_CacheCheck / Req_ReadFile / Req_Store of StaticCache.tla are composed as silent steps of the
   threads in flight, each at some time inside the call's window.  The log is accepted iff some
   interleaving of the silent steps explains every response; all invariants of Cache.tla and
   StaticCache.tla are evaluated on the way. *)
EXTENDS StaticCache, Json, IOUtils

Rec == ndJsonDeserialize(IOEnv.TRACE)
N == Len(Rec)

TLimit     == Rec[1].limit
TTimeLimit == Rec[1].tl
TRoutes    == LET R == Rec IN { R[i].uri : i \in 1..Len(R) }
THosts     == LET R == Rec IN { R[i].host : i \in 1..Len(R) }
TThreads   == LET R == Rec IN { R[i].thr : i \in 1..Len(R) }
TFiles     == LET R == Rec IN { R[i].file : i \in { j \in 1..Len(R) : R[j].ev = "write" } }
TFileOf    == LET R == Rec IN
              [k \in TRoutes \X THosts |->
                 LET S == { i \in 1..Len(R) : R[i].ev = "start" /\ R[i].uri = k[1] /\ R[i].host = k[2] }
                 IN  IF S = {} THEN "-" ELSE R[CHOOSE i \in S : TRUE].file]

TStrip     == [r \in TRoutes |-> r]     \* (unused: Dev = {})

VARIABLES l, dead, win
tvars == <<entries, total, clock, last, op, files, fhist, pc, rq, resp, l, dead, win>>

P(e) == [size |-> e.size, id |-> e.hash, mime |-> e.mime]

TInit ==
  /\ Init
  /\ files = [f \in Files |-> NoPayload]
  /\ fhist = [f \in Files |-> <<>>]
  /\ pc = [t \in Threads |-> "idle"]
  /\ rq = [t \in Threads |-> NoRq]
  /\ resp = [t \in Threads |-> NoResp]
  /\ win = [t \in Threads |-> [lo |-> 0, hi |-> 0]]
  /\ l = 1 /\ dead = FALSE /\ TLCSet(1, 1)

TReset ==
  /\ entries' = <<>> /\ total' = 0 /\ clock' = 0
  /\ last' \in [Keys -> {NoItem}]
  /\ op' = Op("init", "", 0, NoPayload, 0, NoItem, FALSE)
  /\ files' = [f \in Files |-> NoPayload]
  /\ fhist' = [f \in Files |-> <<>>]
  /\ pc' = [t \in Threads |-> "idle"]
  /\ rq' = [t \in Threads |-> NoRq]
  /\ resp' = [t \in Threads |-> NoResp]
  /\ UNCHANGED win

Matches(e, r) ==
  /\ e.status = r.status
  /\ (r.status = 200) => (e.size = r.size /\ e.hash = r.id /\ e.mime = r.mime)

Event ==
  /\ l <= N
  /\ l' = l + 1
  /\ LET e == Rec[l]
     IN  \/ e.ev = "reset" /\ TReset /\ dead' = FALSE
         \/ /\ e.ev = "write"
            /\ RewriteStep(e.file, P(e), e.lo) /\ clock' = e.lo
            /\ UNCHANGED <<win, dead>>
         \/ /\ e.ev = "start"
            /\ StartStep(e.thr, e.uri, e.host)
            /\ win' = [win EXCEPT ![e.thr] = [lo |-> e.lo, hi |-> e.hi]]
            /\ UNCHANGED <<clock, dead>>
         \* an observer held the cache's read guard and added up what Cache::get returned for every key the run uses:
         \* the retrievable bytes (Inv_Size: never more than the limit, whatever the handlers are doing meanwhile)
         \/ /\ e.ev = "sweep"
            /\ IF e.size <= e.limit
               THEN UNCHANGED <<entries, total, clock, last, op, files, fhist, pc, rq, resp, win, dead>>
               ELSE /\ PrintT(ToJson([mismatch_at |-> l, event |-> e, model_response |-> "size bound",
                                      model_entries |-> entries, model_files |-> files]))
                    /\ dead' = TRUE
                    /\ UNCHANGED <<entries, total, clock, last, op, files, fhist, pc, rq, resp, win>>
         \/ /\ e.ev = "end"
            /\ pc[e.thr] = "done"
            /\ IF Matches(e, resp[e.thr])
               THEN EndStep(e.thr) /\ UNCHANGED <<clock, win, dead>>
               ELSE /\ PrintT(ToJson([mismatch_at |-> l, event |-> e, model_response |-> resp[e.thr],
                                      model_entries |-> entries, model_files |-> files]))
                    /\ dead' = TRUE
                    /\ UNCHANGED <<entries, total, clock, last, op, files, fhist, pc, rq, resp, win>>

Silent ==
  /\ \E th \in Threads :
        \/ \E now \in win[th].lo..win[th].hi : CacheCheckStep(th, now) /\ clock' = now
        \/ ReadFileStep(th) /\ UNCHANGED clock
        \/ \E now \in win[th].lo..win[th].hi : now >= rq[th].t0 /\ StoreStep(th, now) /\ clock' = now
  /\ UNCHANGED <<l, dead, win>>

TNext == Event \/ Silent
TSpec == TInit /\ [][TNext]_tvars

\* (once some branch has consumed the whole log the remaining branches are not explored any further)
Live == ~dead /\ TLCGet(1) <= N /\ TLCSet(1, IF l > TLCGet(1) THEN l ELSE TLCGet(1))

Accepted ==
  \/ TLCGet(1) = N + 1
  \/ /\ PrintT(ToJson([rejected_at |-> TLCGet(1), event |-> Rec[IF TLCGet(1) <= N THEN TLCGet(1) ELSE N]]))
     /\ FALSE
=============================================================================
