------------------------------ MODULE Sim_Cache ------------------------------
(* Random behaviours of Cache.tla written out in the log format of the harness (TLC -simulate).
   Used to test the property judge Trace_CacheProp.tla without touching the code: behaviours of
   Dev = {} must be accepted, behaviours of each hypothetical fault must be rejected at least once. *)
EXTENDS MC_Cache

CONSTANT SimDepth
VARIABLE hist

LogRec(o, now) ==
  [ev |-> o.name, seq |-> Len(hist), thr |-> 0, route |-> o.route, host |-> o.host, size |-> o.size, hash |-> o.id,
   mime |-> o.mime, lo |-> now, hi |-> now, hit |-> o.res.hit, rsize |-> o.res.size, rhash |-> o.res.id,
   rmime |-> o.res.mime, rt |-> o.res.t, limit |-> Limit, tl |-> TimeLimit, aux |-> IF o.panic THEN 2 ELSE 0]
ResetRec ==
  [ev |-> "reset", seq |-> 0, thr |-> 0, route |-> "", host |-> 0, size |-> 0, hash |-> 0, mime |-> "sim", lo |-> 0, hi |-> 0,
   hit |-> FALSE, rsize |-> 0, rhash |-> 0, rmime |-> "", rt |-> 0, limit |-> Limit, tl |-> TimeLimit, aux |-> 0]

SimInit == Init /\ hist = <<ResetRec>>
SimNext == /\ Next
           /\ hist' = IF op'.name \in {"set", "get"} THEN Append(hist, LogRec(op', clock')) ELSE hist
\* printed once per behaviour: in the state whose step appended record number SimDepth
SimDump == ~(Len(hist) = SimDepth /\ op.name \in {"set", "get"}) \/ PrintT("T" \o ToJson(hist))
=============================================================================
