CONSTANTS
  Routes = {"/a", "/b"}
  Hosts = {0, 1}
  MCSizes = {0, 1, 2}
  MCIds = {1, 2}
  Payloads <- MCPayloads
  Limit = 2
  TimeLimit = 1
  Ticks = {1}
  Dev = {}
  MaxClock = 0
  MaxDepth = 0
INIT Init
NEXT Next
VIEW ViewGen
ACTION_CONSTRAINT EmitEdge
CHECK_DEADLOCK FALSE
