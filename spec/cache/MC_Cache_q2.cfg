CONSTANTS
  Routes = {"/a"}
  Hosts = {0, 1}
  MCSizes = {0, 2, 4}
  MCIds = {1, 2}
  Payloads <- MCPayloads
  Limit = 4
  TimeLimit = 0
  Ticks = {1}
  Dev = {}
  MaxClock = 0
  MaxDepth = 0
SPECIFICATION Spec
VIEW ViewMC
INVARIANTS TypeOK Inv_Size Inv_TotalExact Inv_TotalBound Inv_Coherent Inv_Unique
PROPERTIES Act_ImmediatelyRetrievable Act_GetCoherent
CHECK_DEADLOCK FALSE
