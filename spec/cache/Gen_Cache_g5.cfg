CONSTANTS
  Routes = {"/a", "/b"}
  Hosts = {0, 1}
  MCSizes = {0, 2, 4}
  MCIds = {1, 2}
  Payloads <- MCPayloads
  Limit = 4
  TimeLimit = 0
  Ticks = {1}
  Dev = {}
  MaxClock = 0
  MaxDepth = 0
INIT Init
NEXT Next
VIEW ViewGen
ACTION_CONSTRAINT EmitEdge
CHECK_DEADLOCK FALSE
