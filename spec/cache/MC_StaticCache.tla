--------------------------- MODULE MC_StaticCache ---------------------------
(* TLC-only definitions for StaticCache.tla. *)
EXTENDS StaticCache

CONSTANTS MCSizes, MCIds, MaxClock

MimeOf(i) == IF i = 1 THEN "text/html" ELSE IF i = 2 THEN "image/png" ELSE "text/css"
MCPayloads == { [size |-> s, id |-> i, mime |-> MimeOf(i)] : s \in MCSizes, i \in MCIds }

\* "/a" is served from file f under every host, "/b" from g, anything else resolves to nothing
\* "/d/" is a directory whose index file is f, "/d" the same directory named without the slash (301)
MCFileOf == [k \in Keys |-> IF k[1] \in {"/a", "/d/"} /\ "f" \in Files THEN "f"
                            ELSE IF k[1] = "/b" /\ "g" \in Files THEN "g"
                            ELSE IF k[1] = "/d" THEN "/" ELSE "-"]
MCStrip == [r \in Routes |-> IF r = "/d/" THEN "/d" ELSE r]

ClockBound == clock <= MaxClock
\* `op` only describes the last step (read by the action properties); it is not part of the view
SView == <<entries, total, clock, last, files, fhist, pc, rq, resp>>
=============================================================================
