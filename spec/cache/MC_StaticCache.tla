--------------------------- MODULE MC_StaticCache ---------------------------
(* TLC-only definitions for StaticCache.tla. *)
EXTENDS StaticCache

CONSTANTS MCSizes, MCIds, MaxClock

MimeOf(i) == IF i = 1 THEN "text/html" ELSE IF i = 2 THEN "image/png" ELSE "text/css"
MCPayloads == { [size |-> s, id |-> i, mime |-> MimeOf(i)] : s \in MCSizes, i \in MCIds }

\* "/a" is served from file f under every host, "/b" from g, anything else resolves to nothing
MCFileOf == [k \in Keys |-> IF k[1] = "/a" /\ "f" \in Files THEN "f"
                            ELSE IF k[1] = "/b" /\ "g" \in Files THEN "g" ELSE "-"]

ClockBound == clock <= MaxClock
\* `op` only describes the last step (read by the action properties); it is not part of the view
SView == <<entries, total, clock, last, files, fhist, pc, rq, resp>>
=============================================================================
