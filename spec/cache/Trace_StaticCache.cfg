CONSTANTS
  Routes <- TRoutes
  Hosts <- THosts
  Threads <- TThreads
  Files <- TFiles
  FileOf <- TFileOf
  StripSlash <- TStrip
  Payloads = {}
  Limit <- TLimit
  TimeLimit <- TTimeLimit
  Ticks = {1}
  Dev = {}
  RewriteInFlight = FALSE
  MaxWrites = 0
SPECIFICATION TSpec
CONSTRAINT Live
INVARIANTS Inv_Size Inv_TotalExact Inv_TotalBound Inv_Coherent Inv_Unique Inv_MissServesFile Inv_Fresh Inv_CachedWasFile
PROPERTIES Act_ImmediatelyRetrievable Act_HandlerCoherent
POSTCONDITION Accepted
CHECK_DEADLOCK FALSE
