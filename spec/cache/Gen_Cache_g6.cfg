CONSTANTS
  Routes = {"/a", "/b"}
  Hosts = {0, 1}
  MCSizes = {0}
  MCIds = {1, 2}
  Payloads <- MCPayloads
  Limit = 0
  TimeLimit = 60
  Ticks = {30, 31}
  Dev = {}
  MaxClock = 0
  MaxDepth = 0
INIT Init
NEXT Next
VIEW ViewGen
ACTION_CONSTRAINT EmitEdge
CHECK_DEADLOCK FALSE
