---------------------------- MODULE StaticCache ----------------------------
(* The static handlers of humphrey-server (src/server/static.rs: file_handler, directory_handler ->
   cache_check, inner_file_handler) on top of the cache of Cache.tla - the handler-level part of C16:
   "at handler level for file and directory routes whose underlying files change between requests".

   One action per critical section of a request, per handler thread:
     Req_Start        the handler is entered for (uri, host)
     Req_CacheCheck   cache_check: only when size_limit > 0, under the READ guard: Cache::get; a hit is the
                      response (200, cached bytes, cached MIME type)
     Req_ReadFile     try_find_path / File::open + read_to_end: the file the target resolves to is read
                      (a target that resolves to nothing answers 404 / 301 and never touches the cache)
     Req_Store        inner_file_handler: when size_limit >= len, under the WRITE guard: Cache::set;
                      the response is (200, bytes read, MIME type of the extension)
     Req_End          the response is returned
     Rewrite          the environment replaces the content of a file
     Tick             the clock advances

   Handler-level properties:
     Act_HandlerCoherent  a response served from the cache is exactly what was most recently stored
                          for that (uri, host), stored no longer ago than the time limit
     Inv_Fresh            bounded staleness: every 200 response is a content the file had at some
                          moment not earlier than TimeLimit seconds before the request's cache check.
                          It holds when files change only BETWEEN requests (RewriteInFlight = FALSE, the
                          property's wording).  With rewrites during requests it is violated through the
                          read-then-store window of inner_file_handler (config MC_StaticCache_race.cfg
                          shows the behaviour; this is not part of C16 and is recorded as an observation). *)
EXTENDS Cache

CONSTANTS Threads,          \* handler threads
          Files,            \* file names (strings)
          FileOf,           \* [Keys -> Files \cup {"-", "/"}]   "-": the target resolves to nothing (404),
                            \*                                     "/": to a directory named without the slash (301)
          StripSlash,       \* [Routes -> STRING]: the route without trailing slashes (used by Dev KeyStripsSlash only)
          RewriteInFlight,  \* BOOLEAN: may files change while a request is in progress?
          MaxWrites         \* bound on the recorded history per file (model checking only)

VARIABLES files,   \* [Files -> payload]
          fhist,   \* ghost: [Files -> Seq([p, from])]  every content a file has had and since when
          pc,      \* [Threads -> {"idle", "check", "read", "store", "done"}]
          rq,      \* [Threads -> [route, host, t0, body]]   t0: clock of the cache check
          resp     \* [Threads -> [status, size, id, mime, cached]]

svars == <<entries, total, clock, last, op, files, fhist, pc, rq, resp>>

NoResp == [status |-> 0, size |-> 0, id |-> 0, mime |-> "", cached |-> FALSE]
NoRq   == [route |-> "", host |-> 0, t0 |-> 0, body |-> NoPayload]
Resp(status, p, cached) == [status |-> status, size |-> p.size, id |-> p.id, mime |-> p.mime, cached |-> cached]

\* the key under which static.rs caches a request: the request's uri (query string already split off)
CacheKey(r) == IF "KeyStripsSlash" \in Dev THEN StripSlash[r] ELSE r

SInit ==
  /\ Init
  /\ files \in [Files -> Payloads]
  /\ fhist = [f \in Files |-> <<[p |-> files[f], from |-> 0]>>]
  /\ pc = [t \in Threads |-> "idle"]
  /\ rq = [t \in Threads |-> NoRq]
  /\ resp = [t \in Threads |-> NoResp]

(* The steps take the time as a parameter so that the trace specification can reuse them with the
   harness-observed clock interval; the actions below call them with the model's clock. *)
StartStep(th, r, h) ==
  /\ pc[th] = "idle"
  /\ pc' = [pc EXCEPT ![th] = "check"]
  /\ rq' = [rq EXCEPT ![th] = [route |-> r, host |-> h, t0 |-> 0, body |-> NoPayload]]
  /\ resp' = [resp EXCEPT ![th] = NoResp]
  /\ op' = Op("start", r, h, NoPayload, 0, NoItem, FALSE)
  /\ UNCHANGED <<entries, total, last, files, fhist>>

CacheCheckStep(th, now) ==
  /\ pc[th] = "check"
  /\ LET g == IF Limit > 0 THEN GetRes(entries, CacheKey(rq[th].route), rq[th].host, now) ELSE NoItem
     IN  /\ IF g.hit
            THEN /\ resp' = [resp EXCEPT ![th] = Resp(200, [size |-> g.size, id |-> g.id, mime |-> g.mime], TRUE)]
                 /\ pc' = [pc EXCEPT ![th] = "done"]
            ELSE /\ pc' = [pc EXCEPT ![th] = "read"]
                 /\ UNCHANGED resp
         /\ op' = Op("get", rq[th].route, rq[th].host, NoPayload, 0, g, FALSE)
  /\ rq' = [rq EXCEPT ![th].t0 = now]
  /\ UNCHANGED <<entries, total, last, files, fhist>>

ReadFileStep(th) ==
  /\ pc[th] = "read"
  /\ LET f == FileOf[<<rq[th].route, rq[th].host>>]
     IN  IF f \in {"-", "/"}
         THEN /\ resp' = [resp EXCEPT ![th] = Resp(IF f = "/" THEN 301 ELSE 404, NoPayload, FALSE)]
              /\ pc' = [pc EXCEPT ![th] = "done"]
              /\ UNCHANGED rq
         ELSE /\ rq' = [rq EXCEPT ![th].body = files[f]]
              /\ pc' = [pc EXCEPT ![th] = "store"]
              /\ UNCHANGED resp
  /\ op' = Op("read", rq[th].route, rq[th].host, NoPayload, 0, NoItem, FALSE)
  /\ UNCHANGED <<entries, total, last, files, fhist>>

StoreStep(th, now) ==
  /\ pc[th] = "store"
  /\ LET p == rq[th].body
         r == CacheKey(rq[th].route)
         h == rq[th].host
     IN  /\ IF Limit >= p.size
            THEN LET s == SetRes(entries, total, r, h, p, now)     \* (never panics: p.size <= Limit)
                 IN  /\ entries' = s[1] /\ total' = s[2]
                     /\ last' = IF s[3] THEN last ELSE [last EXCEPT ![<<r, h>>] = Hit(p, now)]
                     /\ op' = Op("set", r, h, p, 0, NoItem, s[3])
            ELSE /\ UNCHANGED <<entries, total, last>>
                 /\ op' = Op("nostore", r, h, p, 0, NoItem, FALSE)
         /\ resp' = [resp EXCEPT ![th] = Resp(200, p, FALSE)]
  /\ pc' = [pc EXCEPT ![th] = "done"]
  /\ UNCHANGED <<rq, files, fhist>>

EndStep(th) ==
  /\ pc[th] = "done"
  /\ pc' = [pc EXCEPT ![th] = "idle"]
  /\ op' = Op("end", rq[th].route, rq[th].host, NoPayload, 0, NoItem, FALSE)
  /\ UNCHANGED <<entries, total, last, files, fhist, rq, resp>>

RewriteStep(f, p, now) ==
  /\ files' = [files EXCEPT ![f] = p]
  /\ fhist' = [fhist EXCEPT ![f] = Append(@, [p |-> p, from |-> now])]
  /\ op' = Op("write", "", 0, p, 0, NoItem, FALSE)
  /\ UNCHANGED <<entries, total, last, pc, rq, resp>>

Req_Start(th, r, h) == StartStep(th, r, h) /\ UNCHANGED clock
Req_CacheCheck(th)  == CacheCheckStep(th, clock) /\ UNCHANGED clock
Req_ReadFile(th)    == ReadFileStep(th) /\ UNCHANGED clock
Req_Store(th)       == StoreStep(th, clock) /\ UNCHANGED clock
Req_End(th)         == EndStep(th) /\ UNCHANGED clock
Rewrite(f, p) ==
  /\ RewriteInFlight \/ \A t \in Threads : pc[t] = "idle"
  /\ Len(fhist[f]) < MaxWrites
  /\ RewriteStep(f, p, clock) /\ UNCHANGED clock
STick(d) == Tick(d) /\ UNCHANGED <<files, fhist, pc, rq, resp>>

SNext ==
  \/ \E th \in Threads :
        \/ \E r \in Routes, h \in Hosts : Req_Start(th, r, h)
        \/ Req_CacheCheck(th) \/ Req_ReadFile(th) \/ Req_Store(th) \/ Req_End(th)
  \/ \E f \in Files, p \in Payloads : Rewrite(f, p)
  \/ \E d \in Ticks : STick(d)

SSpec == SInit /\ [][SNext]_svars

(***************************************************************************)
(* Handler-level properties                                                *)
(***************************************************************************)
\* a response taken from the cache is the last thing stored for that key, and fresh
HandlerCoherent ==
  \A th \in Threads :
    (pc[th] = "check" /\ pc'[th] = "done")
      => LET k == <<rq[th].route, rq[th].host>>
         IN  /\ last[k].hit
             /\ resp'[th].size = last[k].size /\ resp'[th].id = last[k].id /\ resp'[th].mime = last[k].mime
             /\ rq'[th].t0 - last[k].t <= TimeLimit
Act_HandlerCoherent == [][HandlerCoherent]_svars

\* a response that is not taken from the cache is the file as it was read
Inv_MissServesFile ==
  \A th \in Threads :
    (pc[th] = "done" /\ resp[th].status = 200 /\ ~resp[th].cached)
      => (resp[th].size = rq[th].body.size /\ resp[th].id = rq[th].body.id /\ resp[th].mime = rq[th].body.mime)

\* bounded staleness of every 200 response
Inv_Fresh ==
  \A th \in Threads :
    (pc[th] = "done" /\ resp[th].status = 200)
      => LET f == FileOf[<<rq[th].route, rq[th].host>>]
             H == IF f \in {"-", "/"} THEN <<>> ELSE fhist[f]      \* (no 200 for a target that is not a file)
         IN  \E i \in 1..Len(H) :
                /\ H[i].p.size = resp[th].size /\ H[i].p.id = resp[th].id /\ H[i].p.mime = resp[th].mime
                /\ (i = Len(H) \/ H[i + 1].from >= rq[th].t0 - TimeLimit)

\* the cache never holds, for a key, anything a file of that key never contained
Inv_CachedWasFile ==
  \A i \in 1..Len(entries) :
    LET f == FileOf[<<entries[i].route, entries[i].host>>]
    IN  f \notin {"-", "/"} /\ \E j \in 1..Len(fhist[f]) :
           /\ fhist[f][j].p.size = entries[i].size /\ fhist[f][j].p.id = entries[i].id
           /\ fhist[f][j].p.mime = entries[i].mime

\* vacuity witnesses (negations; must be violated)
Never_ServedFromCache == \A th \in Threads : ~(pc[th] = "done" /\ resp[th].cached)
Never_ServedOldContent ==
  \A th \in Threads : (pc[th] = "done" /\ resp[th].status = 200)
      => LET f == FileOf[<<rq[th].route, rq[th].host>>]
         IN  resp[th].id = files[f].id /\ resp[th].size = files[f].size
=============================================================================
