--------------------------- MODULE Trace_Plugins ---------------------------
(* Code -> spec: server runs with several instances of the logging test plugin (harness-plugin/), recorded by
   checks/c15_plugins.py: the configuration, the on_load calls, whether the server came up, and per request the
   on_request offers, the on_response applications (from the plugins' call log) and the HTTP answer (the X-By and X-Seen headers).
   Every record must be what PluginsOps demands of its configuration; the names of the checks a record fails are
   collected and printed, and the invariant fails at the last state when Dev = {} cannot explain a record. *)
EXTENDS Naturals, Sequences, FiniteSets, TLC, Json, IOUtils, PluginsOps

Rec == ndJsonDeserialize(IOEnv.TRACE)

SeqToSet(s) == {s[i] : i \in 1..Len(s)}
CfgOf(r) == [i \in 1..Len(r.cfg) |-> [load |-> r.cfg[i].load, ans |-> SeqToSet(r.cfg[i].ans)]]
Ids(s) == [i \in 1..Len(s) |-> s[i].id]

ReqProblems(c, q) ==
  LET w == Winner(c, q.path)
      asked == AskedOf(c, q.path) IN
  (IF q.got = "response" /\ q.other = 0 /\ q.order_ok THEN {} ELSE {"answer"})
  \cup (IF Ids(q.offers) = asked THEN {} ELSE {"offers"})
  \cup (IF /\ q.by = (IF w = ROUTE THEN 0 ELSE w)
           /\ \A i \in 1..Len(q.offers) : q.offers[i].ans = (q.offers[i].id = w)
        THEN {} ELSE {"first-some-wins"})
  \cup (IF q.applies = KeptOf(c) /\ q.seen = KeptOf(c) THEN {} ELSE {"response-hooks"})

Problems(r) ==
  LET c == CfgOf(r) IN
  (IF /\ Len(r.loads) = LoadsCalled(c)
      /\ \A i \in 1..Len(r.loads) : i <= Len(c) /\ r.loads[i].id = i /\ r.loads[i].res = c[i].load
   THEN {} ELSE {"load-order"})
  \cup (IF Starts(c) THEN (IF r.startup = "up" /\ r.alive /\ Len(r.reqs) > 0 THEN {} ELSE {"startup"})
                     ELSE (IF r.startup = "refused" /\ r.reqs = <<>> /\ ~r.alive THEN {} ELSE {"fatal-refuses"}))
  \cup UNION {ReqProblems(c, r.reqs[k]) : k \in 1..Len(r.reqs)}
  \cup (IF IsPrefix(r.unloads, KeptOf(c)) THEN {} ELSE {"unload"})

VARIABLES l, bad
Init == l = 1 /\ bad = <<>>
Next == /\ l <= Len(Rec)
        /\ l' = l + 1
        /\ bad' = IF Problems(Rec[l]) = {} THEN bad ELSE Append(bad, [index |-> l, problems |-> Problems(Rec[l])])
Spec == Init /\ [][Next]_<<l, bad>>

AllExplained == (l = Len(Rec) + 1) =>
                  /\ PrintT(ToJson([records |-> Len(Rec), requests |-> LET RECURSIVE S(_)
                                                                         S(i) == IF i = 0 THEN 0 ELSE Len(Rec[i].reqs) + S(i - 1) IN S(Len(Rec)),
                                    rejected |-> bad]))
                  /\ bad = <<>>
=============================================================================
