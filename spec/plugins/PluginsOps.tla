---------------------------- MODULE PluginsOps ----------------------------
(* What a plugin configuration demands, as plain operators (no state): shared by Plugins.tla (invariants) and
   Trace_Plugins.tla (judging recorded server runs).  c is a sequence of [load, ans]. *)
EXTENDS Naturals, Sequences

ROUTE == 99   \* "answered by the route handler"
IsPrefix(s, t) == Len(s) <= Len(t) /\ SubSeq(t, 1, Len(s)) = s
\* ---- what a configuration demands (policy-free helpers, also used by Trace_Plugins) ----
FirstFatal(c) == IF \E i \in 1..Len(c) : c[i].load = "fatal" THEN CHOOSE i \in 1..Len(c) : c[i].load = "fatal" /\ \A j \in 1..(i-1) : c[j].load # "fatal" ELSE 0
Starts(c) == FirstFatal(c) = 0
LoadsCalled(c) == IF Starts(c) THEN Len(c) ELSE FirstFatal(c)
SelectIdx(c, P(_)) == LET RECURSIVE F(_) 
                          F(i) == IF i > Len(c) THEN <<>> ELSE (IF P(i) THEN <<i>> ELSE <<>>) \o F(i+1) IN F(1)
KeptOf(c) == SelectIdx(c, LAMBDA i : c[i].load = "ok" /\ i <= LoadsCalled(c))
Answerers(c, path) == SelectIdx(c, LAMBDA i : c[i].load = "ok" /\ path \in c[i].ans)
Winner(c, path) == IF Answerers(c, path) = <<>> THEN ROUTE ELSE Answerers(c, path)[1]
AskedOf(c, path) == SelectIdx(c, LAMBDA i : c[i].load = "ok" /\ (Winner(c, path) = ROUTE \/ i <= Winner(c, path)))

=============================================================================
