SPECIFICATION Spec
INVARIANTS AllExplained
CHECK_DEADLOCK FALSE
