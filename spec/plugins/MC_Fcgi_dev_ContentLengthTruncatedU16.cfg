SPECIFICATION MSpecC
CONSTANTS
  Dev = {"ContentLengthTruncatedU16"}
INVARIANTS RoundTrip ParamsRoundTrip RequestRoundTrip ReaderFaithful ReaderSurvives TruncationGarbles IdNonZero SplitOnce
CHECK_DEADLOCK FALSE
