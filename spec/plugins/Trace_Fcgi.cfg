SPECIFICATION Spec
CONSTANTS
  Dev = {}
INVARIANTS AllExplained
CHECK_DEADLOCK FALSE
