SPECIFICATION Spec
CONSTANTS
  MaxPlugins = 2
  Paths = {"p", "q"}
  Dev = {"NonFatalKept"}
INVARIANTS TypeOK OrderIsConfigOrder FatalRefuses FirstSomeWins ResponseHooksOnce UnloadOnce
CHECK_DEADLOCK FALSE
