SPECIFICATION MSpecC
CONSTANTS
  Dev = {"ConnErrorExitsServer"}
INVARIANTS RoundTrip ParamsRoundTrip RequestRoundTrip ReaderFaithful ReaderSurvives TruncationGarbles IdNonZero SplitOnce
CHECK_DEADLOCK FALSE
