SPECIFICATION Spec
CONSTANTS
  MaxPlugins = 2
  Paths = {"p", "q"}
  Dev = {"SkippedPluginStillAsked"}
INVARIANTS TypeOK OrderIsConfigOrder FatalRefuses FirstSomeWins ResponseHooksOnce UnloadOnce
CHECK_DEADLOCK FALSE
