SPECIFICATION MSpecC
CONSTANTS
  Dev = {"RequestIdZero"}
INVARIANTS RoundTrip ParamsRoundTrip RequestRoundTrip ReaderFaithful ReaderSurvives TruncationGarbles IdNonZero SplitOnce
CHECK_DEADLOCK FALSE
