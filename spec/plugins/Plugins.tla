------------------------------ MODULE Plugins ------------------------------
(* The plugin manager of humphrey-server (feature `plugins`): plugins/manager.rs, load_plugins and request_handler in
   server/server.rs.  A configuration is a sequence of plugins in file order; plugin i has an on_load result and a set of
   request paths its on_request answers with Some(response).

   What the documentation leaves open and the code decides (modelled as Dev = {}):
   * on_response is applied to EVERY response, also to one produced by a plugin's on_request (request_handler);
   * a NonFatal plugin had its on_load called, is not kept: never asked, never unloaded;
   * a Fatal result stops loading at once (later plugins are not even loaded) and the process exits non-zero;
   * the server has no orderly shutdown: Unload happens only if the manager is dropped; Kill (no unload at all) is a
     legal end.  What is demanded: nobody is unloaded twice, nobody who was not kept is unloaded, order = load order. *)
EXTENDS Naturals, Sequences, FiniteSets, PluginsOps

CONSTANTS MaxPlugins, Paths, Dev

Results == {"ok", "nonfatal", "fatal"}
PluginCfg == [load : Results, ans : SUBSET Paths]

VARIABLES cfg, phase, nxt, kept, loaded, req, unloaded
vars == <<cfg, phase, nxt, kept, loaded, req, unloaded>>

Idle == [stage |-> "idle", path |-> "", pos |-> 1, asked |-> <<>>, by |-> 0, routed |-> FALSE, resp |-> <<>>]

\* ---- the machine ----
Seqs(S, n) == UNION {[1..k -> S] : k \in 0..n}
Init == /\ cfg \in Seqs(PluginCfg, MaxPlugins)
        /\ phase = "loading" /\ nxt = 1 /\ kept = <<>> /\ loaded = <<>> /\ req = Idle /\ unloaded = <<>>

LoadIdx == IF "LoadOrderReversed" \in Dev THEN Len(cfg) + 1 - nxt ELSE nxt

Load(i) == /\ phase = "loading" /\ nxt <= Len(cfg) /\ i = LoadIdx
           /\ loaded' = Append(loaded, i)
           /\ nxt' = nxt + 1
           /\ IF cfg[i].load = "ok" \/ (cfg[i].load = "nonfatal" /\ "NonFatalKept" \in Dev)
                 THEN kept' = Append(kept, i) /\ phase' = phase
              ELSE IF cfg[i].load = "fatal" /\ "FatalStillServes" \notin Dev
                 THEN kept' = kept /\ phase' = "refused"
              ELSE kept' = kept /\ phase' = phase
           /\ UNCHANGED <<cfg, req, unloaded>>

StartServing == /\ phase = "loading" /\ nxt > Len(cfg) /\ phase' = "serving"
                /\ UNCHANGED <<cfg, nxt, kept, loaded, req, unloaded>>

\* whom on_request is offered to
OfferList == IF "SkippedPluginStillAsked" \in Dev THEN SelectSeq(loaded, LAMBDA i : cfg[i].load # "fatal") ELSE kept

NewRequest(p) == /\ phase = "serving" /\ req.stage \in {"idle", "done"}
                 /\ req' = [Idle EXCEPT !.stage = "offer", !.path = p]
                 /\ UNCHANGED <<cfg, phase, nxt, kept, loaded, unloaded>>

Request_Offer(p) == /\ req.stage = "offer" /\ req.pos <= Len(OfferList) /\ p = OfferList[req.pos]
                    /\ IF req.path \in cfg[p].ans
                          THEN IF "LaterPluginWins" \in Dev
                                  THEN req' = [req EXCEPT !.asked = Append(@, p), !.by = p, !.pos = @ + 1]
                                  ELSE req' = [req EXCEPT !.asked = Append(@, p), !.by = p, !.stage = "respond", !.pos = 1]
                          ELSE req' = [req EXCEPT !.asked = Append(@, p), !.pos = @ + 1]
                    /\ UNCHANGED <<cfg, phase, nxt, kept, loaded, unloaded>>

Request_Route == /\ req.stage = "offer" /\ req.pos > Len(OfferList)
                 /\ IF req.by = 0 THEN req' = [req EXCEPT !.by = ROUTE, !.routed = TRUE, !.stage = "respond", !.pos = 1]
                                  ELSE req' = [req EXCEPT !.stage = "respond", !.pos = 1]     \* only reachable under LaterPluginWins
                 /\ UNCHANGED <<cfg, phase, nxt, kept, loaded, unloaded>>

SkipHooks == "ResponseHookSkippedOnPluginResponse" \in Dev /\ req.by # ROUTE

Response_Apply(p) == /\ req.stage = "respond" /\ ~SkipHooks /\ req.pos <= Len(kept) /\ p = kept[req.pos]
                     /\ req' = [req EXCEPT !.resp = Append(@, p), !.pos = @ + 1]
                     /\ UNCHANGED <<cfg, phase, nxt, kept, loaded, unloaded>>

Finish == /\ req.stage = "respond" /\ (SkipHooks \/ req.pos > Len(kept))
          /\ req' = [req EXCEPT !.stage = "done"]
          /\ UNCHANGED <<cfg, phase, nxt, kept, loaded, unloaded>>

Shutdown == /\ phase = "serving" /\ req.stage \in {"idle", "done"} /\ phase' = "stopping"
            /\ UNCHANGED <<cfg, nxt, kept, loaded, req, unloaded>>

UnloadList == IF "DoubleUnload" \in Dev THEN kept \o kept ELSE kept    \* unload() leaves `plugins` filled; Drop runs it again

Unload(p) == /\ phase = "stopping" /\ Len(unloaded) < Len(UnloadList) /\ p = UnloadList[Len(unloaded) + 1]
             /\ unloaded' = Append(unloaded, p)
             /\ UNCHANGED <<cfg, phase, nxt, kept, loaded, req>>

Next == \/ \E i \in 1..MaxPlugins : Load(i)
        \/ StartServing
        \/ \E p \in Paths : NewRequest(p)
        \/ \E p \in 1..MaxPlugins : Request_Offer(p)
        \/ Request_Route
        \/ \E p \in 1..MaxPlugins : Response_Apply(p)
        \/ Finish
        \/ Shutdown
        \/ \E p \in 1..MaxPlugins : Unload(p)

Spec == Init /\ [][Next]_vars

\* ---- properties ----

TypeOK == /\ phase \in {"loading", "serving", "refused", "stopping"} /\ nxt \in 1..(MaxPlugins + 1)

\* plugins are loaded in configuration order; the kept ones are exactly the Ok ones among those loaded, in that order
OrderIsConfigOrder == /\ loaded = [i \in 1..Len(loaded) |-> i]
                      /\ IsPrefix(kept, KeptOf(cfg))
                      /\ (phase \in {"serving", "stopping"} => kept = KeptOf(cfg))

\* a Fatal result: nothing after it is loaded, and the server never serves
FatalRefuses == ~Starts(cfg) => /\ phase \in {"loading", "refused"}
                                 /\ req.stage = "idle"
                                 /\ Len(loaded) <= FirstFatal(cfg)

\* only kept plugins are asked, in order, and the first Some(response) wins: nobody after the winner is asked, the route
\* handler runs iff no kept plugin answers
FirstSomeWins == /\ IsPrefix(req.asked, AskedOf(cfg, req.path))
                 /\ req.stage \in {"respond", "done"} => /\ req.by = Winner(cfg, req.path)
                                                          /\ req.asked = AskedOf(cfg, req.path)
                                                          /\ req.routed = (Winner(cfg, req.path) = ROUTE)

\* every kept plugin sees on_response exactly once per response, in order
ResponseHooksOnce == /\ IsPrefix(req.resp, kept)
                     /\ (req.stage = "done" => req.resp = kept)
                     /\ (req.stage = "offer" => req.resp = <<>>)

\* each kept plugin is unloaded at most once, in order; nobody else is
UnloadOnce == IsPrefix(unloaded, kept)
=============================================================================
