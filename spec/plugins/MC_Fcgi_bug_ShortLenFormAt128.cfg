SPECIFICATION MSpecC
CONSTANTS
  Dev = {"ShortLenFormAt128"}
INVARIANTS RoundTrip ParamsRoundTrip RequestRoundTrip ReaderFaithful ReaderSurvives TruncationGarbles IdNonZero SplitOnce
CHECK_DEADLOCK FALSE
