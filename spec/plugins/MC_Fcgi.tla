------------------------------ MODULE MC_Fcgi ------------------------------
(* Bounded lemmas about the codec (checked as invariants over an enumerated space of records / pair lists: one initial
   state per element) and the reader machine. *)
EXTENDS Fcgi, TLC

Pat(n, k) == [i \in 1..n |-> (i * 7 + k) % 256]
Contents == {Pat(n, 3) : n \in {0, 1, 2, 7, 8, 127, 128, 129, 255, 256, 300}} \cup {<<0>>, <<255>>, <<0, 0>>, <<255, 0, 255>>, <<1, 1, 0, 0, 0, 8, 0, 0>>}
RecSpace == [type : {1, 3, 4, 5, 6, 7, 11, 12, 255}, id : {0, 1, 255, 256, 65535}, content : Contents, pad : {0, 1, 7, 255}]
Strs == {Pat(n, 9) : n \in {0, 1, 5, 126, 127, 128, 129, 300}}
PairLists == {<<>>} \cup {<<<<a, b>>>> : a \in Strs, b \in Strs} \cup {<<<<a, b>>, <<b, a>>, <<Pat(3, 1), Pat(0, 1)>>>> : a \in Strs, b \in Strs}

VARIABLES r, ps
Init2 == r \in RecSpace /\ ps \in {<<>>} /\ RInit
InitP == r \in {NoRec} /\ ps \in PairLists /\ RInit
MInit == Init2 \/ InitP
MNext == RNext /\ UNCHANGED <<r, ps>>
MSpec == MInit /\ [][MNext]_<<r, ps, rd, fed>>
\* the reader is explored from one start only (the symmetry of the lemma space would multiply it for nothing)
ReaderOnly == r = NoRec /\ ps = <<>>
C_Stdout == ReaderOnly /\ (\E c \in Chunks : R_Stdout(c)) /\ UNCHANGED <<r, ps>>
C_Stderr == ReaderOnly /\ (\E c \in Chunks : R_Stderr(c)) /\ UNCHANGED <<r, ps>>
C_End == ReaderOnly /\ R_End /\ UNCHANGED <<r, ps>>
C_Unknown == ReaderOnly /\ R_Unknown /\ UNCHANGED <<r, ps>>
C_Eof == ReaderOnly /\ R_Eof /\ UNCHANGED <<r, ps>>
MNextC == C_Stdout \/ C_Stderr \/ C_End \/ C_Unknown \/ C_Eof
MSpecC == MInit /\ [][MNextC]_<<r, ps, rd, fed>>

RoundTrip == r # NoRec => /\ WellFormed(r)
                          /\ Decode1(Encode(r) \o <<9, 9>>).ok
                          /\ Decode1(Encode(r) \o <<9, 9>>).rec = r
                          /\ Decode1(Encode(r) \o <<9, 9>>).rest = <<9, 9>>
                          /\ Len(Encode(r)) = 8 + Len(r.content) + r.pad
                          /\ ~Decode1(SubSeq(Encode(r), 1, Len(Encode(r)) - 1)).ok          \* a proper prefix is not a record
                          /\ DecodeStream(Encode(r) \o Encode([r EXCEPT !.pad = 0])).recs = <<r, [r EXCEPT !.pad = 0]>>
ParamsRoundTrip == /\ DecodeParams(EncodeParams(ps)).ok
                   /\ DecodeParams(EncodeParams(ps)).pairs = ps
                   /\ \A i \in 1..Len(ps) : Len(EncodePair(ps[i])) = Len(ps[i][1]) + Len(ps[i][2]) + (IF Len(ps[i][1]) < 128 THEN 1 ELSE 4) + (IF Len(ps[i][2]) < 128 THEN 1 ELSE 4)
\* the request stream parses back to what went in, whatever the sizes; at 65535/65536 the content must be split
ClientId == IF "RequestIdZero" \in Dev THEN 0 ELSE 1
RequestRoundTrip == LET body == IF r = NoRec THEN <<>> ELSE r.content
                        s == RequestStream(1, TRUE, ps, body)
                        d == DecodeStream(s) IN
                    /\ d.ok /\ ParseRequest(d.recs).ok /\ ParseRequest(d.recs).stdin = body
                    /\ DecodeParams(ParseRequest(d.recs).params).pairs = ps /\ ParseRequest(d.recs).id = 1
BigBody(n) == [i \in 1..n |-> 90]
SplitLemma == /\ Len(Split(STDIN, 1, BigBody(65535))) = 1
              /\ Len(Split(STDIN, 1, BigBody(65536))) = 2
              /\ \A n \in {65535, 65536, 65537, 131071} :
                    LET d == DecodeStream(RequestStream(1, TRUE, <<>>, BigBody(n))) IN
                    d.ok /\ ParseRequest(d.recs).ok /\ ParseRequest(d.recs).stdin = BigBody(n) /\ \A i \in 1..Len(d.recs) : WellFormed(d.recs[i])
              /\ ~WellFormed([type |-> STDIN, id |-> 1, content |-> BigBody(65536), pad |-> 0])
\* the code as found: one record with the length field truncated - the stream no longer parses to the request
Once == ReaderOnly /\ rd.n = 0 /\ rd.st = "reading"
TruncationGarbles == Once =>
                     LET rs == <<[type |-> BEGIN, id |-> 1, content |-> <<0, 1, 1, 0, 0, 0, 0, 0>>, pad |-> 0], [type |-> PARAMS, id |-> 1, content |-> <<>>, pad |-> 0]>>
                         s == EncodeAll(rs) \o (IF "ContentLengthTruncatedU16" \in Dev THEN CodeEncode([type |-> STDIN, id |-> 1, content |-> BigBody(65536), pad |-> 0])
                                                ELSE EncodeAll(Split(STDIN, 1, BigBody(65536)))) \o Encode([type |-> STDIN, id |-> 1, content |-> <<>>, pad |-> 0])
                         d == DecodeStream(s) IN
                     d.ok /\ ParseRequest(d.recs).ok /\ ParseRequest(d.recs).stdin = BigBody(65536)
\* a client may not choose request id 0 (it is the id of management records)
IdNonZero == ParseRequest(DecodeStream(RequestStream(ClientId, TRUE, ps, <<>>)).recs).id # 0
SplitOnce == Once => SplitLemma
=============================================================================
