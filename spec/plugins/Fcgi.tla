------------------------------- MODULE Fcgi -------------------------------
(* FastCGI 1.0 as the web-server side must speak it (plugins/php/src/fcgi/*.rs, plugins/php/src/lib.rs):
   record layout, name-value pairs, the request stream grammar, the CGI variables of an HTTP request, the response
   reader and the CGI response.  Bytes are 0..255, byte strings are sequences.

   A record is [type, id, content, pad]; on the wire
       version(1) type requestIdB1 requestIdB0 contentLengthB1 contentLengthB0 paddingLength reserved(0) content padding
   contentLength is 16 bit: a content longer than 65535 bytes is NOT a record (WellFormed) and has to be split (Split).

   Named deviations (constant Dev), each as narrow as the defect of the code as found:
     RequestIdZero              every record carries request id 0 (reserved for management records)
     ContentLengthTruncatedU16  a content > 65535 bytes is sent as ONE record whose length field is Len % 65536
     StderrInResponse           the reader appends STDERR contents to the response it hands to HTTP
     UnknownTypePanics          a record type > 11 from the responder: the process dies instead of failing the request
     NonUtf8Panics              STDOUT that is not UTF-8: the process dies
     BadStatusPanics            `Status:` without a number: the process dies
     UnknownStatusBecomes200    a numeric `Status:` that humphrey::http::StatusCode does not list is ignored (answer 200)
     RequestUriDoubleSlash      REQUEST_URI / SCRIPT_NAME / PHP_SELF are "/" + uri although uri already starts with "/"
     ConnErrorExitsServer       EOF / error on the FastCGI connection: the whole server exits (code 0)
   Plausible bugs for sensitivity: PadCountedAsContent, ShortLenFormAt128. *)
EXTENDS Naturals, Sequences, FiniteSets

CONSTANT Dev

BEGIN == 1  ABORT == 2  END == 3  PARAMS == 4  STDIN == 5  STDOUT == 6  STDERR == 7  MAXTYPE == 11
MAXLEN == 65535

Zeros(n) == [i \in 1..n |-> 0]
Hdr(type, id, clen, pad) == <<1, type, id \div 256, id % 256, clen \div 256, clen % 256, pad, 0>>

WellFormed(r) == /\ r.type \in 1..255 /\ r.id \in 0..65535 /\ r.pad \in 0..255 /\ Len(r.content) <= MAXLEN
Encode(r) == Hdr(r.type, r.id, Len(r.content), r.pad) \o r.content \o Zeros(r.pad)

\* what the code as found puts on the wire for a content of any length
CodeEncode(r) == Hdr(r.type, r.id, Len(r.content) % 65536, r.pad) \o r.content \o Zeros(r.pad)

NoRec == [type |-> 0, id |-> 0, content |-> <<>>, pad |-> 0]
\* -> [ok, rec, ver, rsv, rest]
Decode1(s) ==
  IF Len(s) < 8 THEN [ok |-> FALSE, rec |-> NoRec, ver |-> 0, rsv |-> 0, rest |-> <<>>]
  ELSE LET clen == s[5] * 256 + s[6]
           pad == s[7]
           cl == IF "PadCountedAsContent" \in Dev THEN clen + pad ELSE clen IN
       IF Len(s) < 8 + clen + pad THEN [ok |-> FALSE, rec |-> NoRec, ver |-> s[1], rsv |-> s[8], rest |-> <<>>]
       ELSE [ok |-> TRUE, rec |-> [type |-> s[2], id |-> s[3] * 256 + s[4], content |-> SubSeq(s, 9, 8 + cl), pad |-> pad],
             ver |-> s[1], rsv |-> s[8], rest |-> SubSeq(s, 9 + clen + pad, Len(s))]

\* the whole byte string as records: [ok, recs]; ok iff it is a concatenation of version-1 records, nothing left over
RECURSIVE DecodeStream(_)
DecodeStream(s) ==
  IF s = <<>> THEN [ok |-> TRUE, recs |-> <<>>]
  ELSE LET d == Decode1(s) IN
       IF ~d.ok \/ d.ver # 1 THEN [ok |-> FALSE, recs |-> <<>>]
       ELSE LET t == DecodeStream(d.rest) IN [ok |-> t.ok, recs |-> <<d.rec>> \o t.recs]

RECURSIVE Concat(_)
Concat(ss) == IF ss = <<>> THEN <<>> ELSE Head(ss) \o Concat(Tail(ss))
EncodeAll(rs) == Concat([i \in 1..Len(rs) |-> Encode(rs[i])])

\* splitting a long content into records (the only way to send it)
RECURSIVE Split(_, _, _)
Split(type, id, c) == IF Len(c) <= MAXLEN THEN <<[type |-> type, id |-> id, content |-> c, pad |-> 0]>>
                      ELSE <<[type |-> type, id |-> id, content |-> SubSeq(c, 1, MAXLEN), pad |-> 0]>> \o Split(type, id, SubSeq(c, MAXLEN + 1, Len(c)))

\* ---- name-value pairs ----
LenEnc(n) == IF n < 128 /\ ~("ShortLenFormAt128" \in Dev /\ FALSE) THEN <<n>>
             ELSE IF n = 128 /\ "ShortLenFormAt128" \in Dev THEN <<n>>
             ELSE <<128 + n \div 16777216, (n \div 65536) % 256, (n \div 256) % 256, n % 256>>
EncodePair(p) == LenEnc(Len(p[1])) \o LenEnc(Len(p[2])) \o p[1] \o p[2]
EncodeParams(ps) == Concat([i \in 1..Len(ps) |-> EncodePair(ps[i])])

\* a length at position k of s: [ok, n, nx]
LenDec(s, k) == IF k > Len(s) THEN [ok |-> FALSE, n |-> 0, nx |-> k]
                ELSE IF s[k] < 128 THEN [ok |-> TRUE, n |-> s[k], nx |-> k + 1]
                ELSE IF k + 3 > Len(s) THEN [ok |-> FALSE, n |-> 0, nx |-> k]
                ELSE [ok |-> TRUE, n |-> (s[k] - 128) * 16777216 + s[k+1] * 65536 + s[k+2] * 256 + s[k+3], nx |-> k + 4]
RECURSIVE DecodeParamsFrom(_, _)
DecodeParamsFrom(s, k) ==
  IF k > Len(s) THEN [ok |-> TRUE, pairs |-> <<>>]
  ELSE LET a == LenDec(s, k) IN
       IF ~a.ok THEN [ok |-> FALSE, pairs |-> <<>>]
       ELSE LET b == LenDec(s, a.nx) IN
            IF ~b.ok \/ b.nx + a.n + b.n - 1 > Len(s) THEN [ok |-> FALSE, pairs |-> <<>>]
            ELSE LET t == DecodeParamsFrom(s, b.nx + a.n + b.n) IN
                 [ok |-> t.ok, pairs |-> <<<<SubSeq(s, b.nx, b.nx + a.n - 1), SubSeq(s, b.nx + a.n, b.nx + a.n + b.n - 1)>>>> \o t.pairs]
DecodeParams(s) == DecodeParamsFrom(s, 1)

\* ---- the request stream: Begin Params* EmptyParams Stdin* EmptyStdin ----
\* position of the first record from k on whose type is not t or whose content is empty
RECURSIVE RunEnd(_, _, _)
RunEnd(rs, k, t) == IF k <= Len(rs) /\ rs[k].type = t /\ rs[k].content # <<>> THEN RunEnd(rs, k + 1, t) ELSE k
ContentsOf(rs, a, b) == Concat([i \in 1..(b - a + 1) |-> rs[a + i - 1].content])

\* -> [ok, id, keep, params (bytes), stdin (bytes)]
ParseRequest(rs) ==
  LET bad == [ok |-> FALSE, id |-> 0, keep |-> FALSE, params |-> <<>>, stdin |-> <<>>] IN
  IF Len(rs) < 3 \/ rs[1].type # BEGIN \/ Len(rs[1].content) # 8 THEN bad
  ELSE LET b == rs[1].content
           p == RunEnd(rs, 2, PARAMS)
           q == RunEnd(rs, p + 1, STDIN) IN
       IF \/ b[1] # 0 \/ b[2] # 1 \/ b[3] \notin {0, 1} \/ SubSeq(b, 4, 8) # Zeros(5)          \* role = responder
          \/ p > Len(rs) \/ rs[p].type # PARAMS \/ rs[p].content # <<>>
          \/ q # Len(rs) \/ rs[q].type # STDIN \/ rs[q].content # <<>>
          \/ \E i \in 1..Len(rs) : rs[i].id # rs[1].id
       THEN bad
       ELSE [ok |-> TRUE, id |-> rs[1].id, keep |-> b[3] = 1, params |-> ContentsOf(rs, 2, p - 1), stdin |-> ContentsOf(rs, p + 1, q - 1)]

\* the stream a correct client sends for (params, body): the canonical one (any split into non-empty records is as good)
RequestStream(id, keep, pairs, body) ==
  LET pb == EncodeParams(pairs) IN
  EncodeAll(<<[type |-> BEGIN, id |-> id, content |-> <<0, 1, IF keep THEN 1 ELSE 0, 0, 0, 0, 0, 0>>, pad |-> 0]>>
            \o (IF pb = <<>> THEN <<>> ELSE Split(PARAMS, id, pb)) \o <<[type |-> PARAMS, id |-> id, content |-> <<>>, pad |-> 0]>>
            \o (IF body = <<>> THEN <<>> ELSE Split(STDIN, id, body)) \o <<[type |-> STDIN, id |-> id, content |-> <<>>, pad |-> 0]>>)

\* ---- the response reader (one request): records arrive, the reader stops at the first that is neither STDOUT nor STDERR
VARIABLES rd, fed
rvars == <<rd, fed>>
RInit == rd = [st |-> "reading", out |-> <<>>, n |-> 0] /\ fed = <<>>
Chunks == {<<>>, <<65>>, <<66, 67>>}
MaxRecs == 4
R_Stdout(c) == /\ rd.st = "reading" /\ rd.n < MaxRecs
               /\ rd' = [rd EXCEPT !.out = @ \o c, !.n = @ + 1] /\ fed' = fed \o c
R_Stderr(c) == /\ rd.st = "reading" /\ rd.n < MaxRecs
               /\ rd' = [rd EXCEPT !.out = IF "StderrInResponse" \in Dev THEN @ \o c ELSE @, !.n = @ + 1] /\ fed' = fed
R_End == /\ rd.st = "reading" /\ rd' = [rd EXCEPT !.st = "done"] /\ fed' = fed
R_Unknown == /\ rd.st = "reading" /\ rd' = [rd EXCEPT !.st = IF "UnknownTypePanics" \in Dev THEN "dead" ELSE "failed"] /\ fed' = fed
R_Eof == /\ rd.st = "reading" /\ rd' = [rd EXCEPT !.st = IF "ConnErrorExitsServer" \in Dev THEN "dead" ELSE "failed"] /\ fed' = fed
RNext == (\E c \in Chunks : R_Stdout(c) \/ R_Stderr(c)) \/ R_End \/ R_Unknown \/ R_Eof
RSpec == RInit /\ [][RNext]_rvars

ReaderFaithful == rd.out = fed                 \* what is handed to HTTP is exactly the STDOUT bytes, in order
ReaderSurvives == rd.st # "dead"               \* no input of the responder takes the server down

\* ---- the CGI response carried by STDOUT ----
CR == 13  LF == 10  SP == 32  COLON == 58
BlankAt(s) == {i \in 1..(Len(s) - 3) : s[i] = CR /\ s[i+1] = LF /\ s[i+2] = CR /\ s[i+3] = LF}
Min(S) == CHOOSE x \in S : \A y \in S : x <= y
HeadPart(s) == IF BlankAt(s) = {} THEN s ELSE SubSeq(s, 1, Min(BlankAt(s)) - 1)
BodyPart(s) == IF BlankAt(s) = {} THEN <<>> ELSE SubSeq(s, Min(BlankAt(s)) + 4, Len(s))
RECURSIVE Lines(_, _)
Lines(s, cur) == IF s = <<>> THEN (IF cur = <<>> THEN <<>> ELSE <<cur>>)
                 ELSE IF Head(s) = LF THEN <<cur>> \o Lines(Tail(s), <<>>)
                 ELSE Lines(Tail(s), IF Head(s) = CR THEN cur ELSE Append(cur, Head(s)))
RECURSIVE LTrim(_)
LTrim(s) == IF s # <<>> /\ Head(s) \in {SP, 9} THEN LTrim(Tail(s)) ELSE s
RECURSIVE RTrim(_)
RTrim(s) == IF s # <<>> /\ s[Len(s)] \in {SP, 9} THEN RTrim(SubSeq(s, 1, Len(s) - 1)) ELSE s
Trim(s) == RTrim(LTrim(s))
ColonAt(l) == {i \in 1..Len(l) : l[i] = COLON}
Lower(s) == [i \in 1..Len(s) |-> IF s[i] \in 65..90 THEN s[i] + 32 ELSE s[i]]
\* header lines -> <<name (lower case), value>>; lines without a colon are dropped
HeaderPairs(s) == LET ls == Lines(HeadPart(s), <<>>)
                      ok == SelectSeq(ls, LAMBDA l : ColonAt(l) # {}) IN
                  [i \in 1..Len(ok) |-> <<Lower(Trim(SubSeq(ok[i], 1, Min(ColonAt(ok[i])) - 1))), Trim(SubSeq(ok[i], Min(ColonAt(ok[i])) + 1, Len(ok[i])))>>]
Digits(s) == s # <<>> /\ \A i \in 1..Len(s) : s[i] \in 48..57
RECURSIVE ToNat(_)
ToNat(s) == IF s = <<>> THEN 0 ELSE ToNat(SubSeq(s, 1, Len(s) - 1)) * 10 + (s[Len(s)] - 48)
RECURSIVE Dec(_)
Dec(n) == IF n < 10 THEN <<48 + n>> ELSE Dec(n \div 10) \o <<48 + (n % 10)>>
FirstWord(s) == IF \E i \in 1..Len(s) : s[i] = SP THEN SubSeq(s, 1, Min({i \in 1..Len(s) : s[i] = SP}) - 1) ELSE s
STATUS == <<115, 116, 97, 116, 117, 115>>      \* "status"
StatusLines(s) == SelectSeq(HeaderPairs(s), LAMBDA p : p[1] = STATUS)
OtherHeaders(s) == SelectSeq(HeaderPairs(s), LAMBDA p : p[1] # STATUS)
StatusValid(s) == \A i \in 1..Len(StatusLines(s)) : Digits(FirstWord(StatusLines(s)[i][2])) /\ Len(FirstWord(StatusLines(s)[i][2])) <= 4
StatusOf(s) == IF StatusLines(s) = <<>> THEN 200 ELSE ToNat(FirstWord(StatusLines(s)[Len(StatusLines(s))][2]))
=============================================================================
