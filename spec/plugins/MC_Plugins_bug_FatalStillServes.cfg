SPECIFICATION Spec
CONSTANTS
  MaxPlugins = 2
  Paths = {"p", "q"}
  Dev = {"FatalStillServes"}
INVARIANTS TypeOK OrderIsConfigOrder FatalRefuses FirstSomeWins ResponseHooksOnce UnloadOnce
CHECK_DEADLOCK FALSE
