---- MODULE MC_Plugins ----
EXTENDS Plugins
====
