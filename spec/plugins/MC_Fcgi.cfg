SPECIFICATION MSpecC
CONSTANTS
  Dev = {}
INVARIANTS RoundTrip ParamsRoundTrip RequestRoundTrip ReaderFaithful ReaderSurvives TruncationGarbles IdNonZero SplitOnce
CHECK_DEADLOCK FALSE
