SPECIFICATION MSpecC
CONSTANTS
  Dev = {"PadCountedAsContent"}
INVARIANTS RoundTrip ParamsRoundTrip RequestRoundTrip ReaderFaithful ReaderSurvives TruncationGarbles IdNonZero SplitOnce
CHECK_DEADLOCK FALSE
