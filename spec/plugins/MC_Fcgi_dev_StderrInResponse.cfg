SPECIFICATION MSpecC
CONSTANTS
  Dev = {"StderrInResponse"}
INVARIANTS RoundTrip ParamsRoundTrip RequestRoundTrip ReaderFaithful ReaderSurvives TruncationGarbles IdNonZero SplitOnce
CHECK_DEADLOCK FALSE
