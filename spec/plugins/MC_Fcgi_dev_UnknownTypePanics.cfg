SPECIFICATION MSpecC
CONSTANTS
  Dev = {"UnknownTypePanics"}
INVARIANTS RoundTrip ParamsRoundTrip RequestRoundTrip ReaderFaithful ReaderSurvives TruncationGarbles IdNonZero SplitOnce
CHECK_DEADLOCK FALSE
