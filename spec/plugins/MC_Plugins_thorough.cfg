SPECIFICATION Spec
CONSTANTS
  MaxPlugins = 3
  Paths = {"p", "q"}
  Dev = {}
INVARIANTS TypeOK OrderIsConfigOrder FatalRefuses FirstSomeWins ResponseHooksOnce UnloadOnce
CHECK_DEADLOCK FALSE
