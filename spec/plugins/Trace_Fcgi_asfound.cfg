SPECIFICATION Spec
CONSTANTS
  Dev = {"RequestIdZero", "RequestUriDoubleSlash", "ContentLengthTruncatedU16", "StderrInResponse", "UnknownStatusBecomes200", "UnknownTypePanics", "NonUtf8Panics", "BadStatusPanics", "ConnErrorExitsServer"}
INVARIANTS AllExplained
CHECK_DEADLOCK FALSE
