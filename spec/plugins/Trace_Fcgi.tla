----------------------------- MODULE Trace_Fcgi -----------------------------
(* Code -> spec: exchanges of the REAL PHP plugin (inside the real humphrey binary) with the scripted FastCGI responder of
   checks/c15_plugins.py.  A record carries the HTTP request (byte strings), every byte the responder received (rxall),
   the record script it played, the HTTP response and whether the server process died.  The ASCII spelling of the CGI
   variable names comes with the record (sym); what they must equal is stated here.

   For every record Needs(r) is the set of named deviations of Fcgi.tla without which the record cannot be explained
   ("UNEXPLAINED:<check>" when no named deviation accounts for it).  The invariant fails at the last state when some
   record needs a deviation that is not in Dev; the per-record sets are printed for the driver. *)
EXTENDS Fcgi, TLC, Json, IOUtils

Rec == ndJsonDeserialize(IOEnv.TRACE)

Lookup(pairs, name) == LET hit == SelectSeq(pairs, LAMBDA p : p[1] = name) IN IF hit = <<>> THEN <<>> ELSE hit[1][2]
Has(pairs, name) == SelectSeq(pairs, LAMBDA p : p[1] = name) # <<>>
Unique(pairs) == \A i, j \in 1..Len(pairs) : pairs[i][1] = pairs[j][1] => i = j
StartsWith(s, p) == Len(p) <= Len(s) /\ SubSeq(s, 1, Len(p)) = p

\* ---- the request as the responder must see it ----
VarsProblems(r, pairs) ==
  LET q == r.req  y == r.sym
      uri == Lookup(pairs, y.REQUEST_URI) IN
  (IF Unique(pairs) THEN {} ELSE {"UNEXPLAINED:duplicate-variable"})
  \cup (IF Lookup(pairs, y.REQUEST_METHOD) = q.method THEN {} ELSE {"UNEXPLAINED:REQUEST_METHOD"})
  \cup (IF Lookup(pairs, y.QUERY_STRING) = q.query THEN {} ELSE {"UNEXPLAINED:QUERY_STRING"})
  \cup (IF Lookup(pairs, y.CONTENT_LENGTH) = Dec(Len(q.body)) THEN {} ELSE {"UNEXPLAINED:CONTENT_LENGTH"})
  \cup (IF Lookup(pairs, y.SCRIPT_FILENAME) = q.script_file /\ StartsWith(q.script_file, q.docroot) /\ Lookup(pairs, y.DOCUMENT_ROOT) = q.docroot
        THEN {} ELSE {"UNEXPLAINED:SCRIPT_FILENAME"})
  \cup (IF uri = q.uri \/ uri = q.uri \o <<63>> \o q.query THEN {}
        ELSE IF uri = <<47>> \o q.uri THEN {"RequestUriDoubleSlash"} ELSE {"UNEXPLAINED:REQUEST_URI"})
  \cup (IF Lookup(pairs, y.HTTP_HOST) = q.host THEN {} ELSE {"UNEXPLAINED:HTTP_HOST"})
  \cup (IF Lookup(pairs, y.HTTP_COOKIE) = q.cookie /\ Lookup(pairs, y.CONTENT_TYPE) = q.ctype /\ Lookup(pairs, y.HTTP_USER_AGENT) = q.ua
        THEN {} ELSE {"UNEXPLAINED:forwarded-headers"})

BodyOf(r) == r.req.body
\* the tail the code as found sends for a body that does not fit one record
TruncTail(id, body) == CodeEncode([type |-> STDIN, id |-> id, content |-> body, pad |-> 0]) \o Hdr(STDIN, id, 0, 0)

RequestProblems(r) ==
  IF r.rxall = <<>> THEN {"UNEXPLAINED:no-fastcgi-request"}
  ELSE LET d == DecodeStream(r.rxall)
           p == IF d.ok THEN ParseRequest(d.recs) ELSE ParseRequest(<<>>) IN
       IF d.ok /\ p.ok
       THEN LET dp == DecodeParams(p.params) IN
            (IF p.id # 0 THEN {} ELSE {"RequestIdZero"})
            \cup (IF p.stdin = BodyOf(r) THEN {} ELSE {"UNEXPLAINED:stdin-is-not-the-body"})
            \cup (IF dp.ok THEN VarsProblems(r, dp.pairs) ELSE {"UNEXPLAINED:params-encoding"})
       ELSE \* not a request stream: is it exactly the truncated-length form of one?
            LET n == Len(BodyOf(r))
                tl == 8 + n + 8
                id == r.rxall[3] * 256 + r.rxall[4] IN
            IF n > MAXLEN /\ Len(r.rxall) > tl /\ SubSeq(r.rxall, Len(r.rxall) - tl + 1, Len(r.rxall)) = TruncTail(id, BodyOf(r))
            THEN LET pre == DecodeStream(SubSeq(r.rxall, 1, Len(r.rxall) - tl) \o Hdr(STDIN, id, 0, 0))
                     pp == IF pre.ok THEN ParseRequest(pre.recs) ELSE ParseRequest(<<>>) IN
                 IF pre.ok /\ pp.ok /\ DecodeParams(pp.params).ok
                 THEN {"ContentLengthTruncatedU16"} \cup (IF id # 0 THEN {} ELSE {"RequestIdZero"}) \cup VarsProblems(r, DecodeParams(pp.params).pairs)
                 ELSE {"UNEXPLAINED:request-stream"}
            ELSE {"UNEXPLAINED:request-stream"}

\* ---- the response ----
\* the records the reader consumes: up to and including the first that is neither STDOUT nor STDERR
RECURSIVE StopAt(_, _)
StopAt(sc, k) == IF k > Len(sc) THEN 0 ELSE IF sc[k].type \notin {STDOUT, STDERR} THEN k ELSE StopAt(sc, k + 1)
Consumed(sc) == IF StopAt(sc, 1) = 0 THEN sc ELSE SubSeq(sc, 1, StopAt(sc, 1) - 1)
OutOf(sc) == Concat([i \in 1..Len(Consumed(sc)) |-> IF Consumed(sc)[i].type = STDOUT THEN Consumed(sc)[i].content ELSE <<>>])
OutErrOf(sc) == Concat([i \in 1..Len(Consumed(sc)) |-> Consumed(sc)[i].content])
HasUnknown(sc) == StopAt(sc, 1) # 0 /\ sc[StopAt(sc, 1)].type > MAXTYPE
Eof(r) == StopAt(r.script, 1) = 0 /\ r.then = "close"
NonAscii(s) == \E i \in 1..Len(s) : s[i] >= 128

HeadersPresent(want, got) == \A i \in 1..Len(want) : \E j \in 1..Len(got) : got[j][1] = want[i][1] /\ got[j][2] = want[i][2]
MatchesSt(r, out, st) == /\ r.got = "response" /\ ~r.died
                   /\ r.status = st /\ r.rbody = BodyPart(out) /\ HeadersPresent(OtherHeaders(out), r.rheaders)

Matches(r, out) == MatchesSt(r, out, StatusOf(out))
Survived(r) == ~r.died
ResponseProblems(r) ==
  LET out == OutOf(r.script) IN
  IF HasUnknown(r.script) THEN (IF Survived(r) THEN {} ELSE {"UnknownTypePanics"})
  ELSE IF Eof(r) THEN (IF Survived(r) THEN {} ELSE IF r.exit_code = 0 THEN {"ConnErrorExitsServer"} ELSE {"UNEXPLAINED:died"})
  ELSE IF ~StatusValid(out) THEN (IF Survived(r) /\ (r.got # "response" \/ r.status >= 500) THEN {} ELSE IF r.died THEN {"BadStatusPanics"} ELSE {"UNEXPLAINED:bad-status-accepted"})
  ELSE IF Matches(r, out) THEN {}
  ELSE IF r.died /\ NonAscii(out) THEN {"NonUtf8Panics"}
  ELSE IF r.died THEN {"UNEXPLAINED:died"}
  ELSE IF OutErrOf(r.script) # out /\ Matches(r, OutErrOf(r.script)) THEN {"StderrInResponse"}
  ELSE IF MatchesSt(r, out, 200) THEN {"UnknownStatusBecomes200"}      \* a status Humphrey's StatusCode does not list is dropped
  ELSE {"UNEXPLAINED:http-response"}

Needs(r) == RequestProblems(r) \cup ResponseProblems(r)
Unexplained(r) == {x \in Needs(r) : x \notin Dev}

VARIABLES l, bad, all
Init == l = 1 /\ bad = <<>> /\ all = <<>> /\ RInit
Next == /\ l <= Len(Rec)
        /\ l' = l + 1
        /\ UNCHANGED rvars
        /\ LET nd == Needs(Rec[l]) IN
           /\ all' = Append(all, [index |-> l, n |-> Rec[l].n, needs |-> nd])
           /\ bad' = IF nd \subseteq Dev THEN bad ELSE Append(bad, l)
Spec == Init /\ [][Next]_<<l, bad, all, rd, fed>>

AllExplained == (l = Len(Rec) + 1) => /\ PrintT(ToJson([records |-> Len(Rec), rejected |-> bad, needs |-> all]))
                                      /\ bad = <<>>
=============================================================================
