\* exhaustive, thorough: every three-field declaration over {i64, String, E} x {T, Option<T>, Vec<T>} x renames
CONSTANTS
  Dev = {}
  Modes = {"decl"}
  BaseSeq <- BasesTiny
  WrapSeq <- WrapsTiny
  RenSeq <- RensMC
  DocSet = {""}
  IntFull = FALSE
  Family = "all"
  MaxFields = 3
  MaxDepth = 3
  MaxItems = 3
  MaxNodes = 6
  Leaves = {1, 2}
  GenSizes <- SizesNone
  NVals = 0
SPECIFICATION Spec
INVARIANTS TheoremsDiag
CHECK_DEADLOCK FALSE
