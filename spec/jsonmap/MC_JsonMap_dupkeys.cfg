\* sensitivity / precondition: without WellFormed (two fields under one name) RoundTrip must fail
CONSTANTS
  Dev = {"AllowDupKeys"}
  Modes = {"decl"}
  BaseSeq <- BasesTiny
  WrapSeq <- WrapsTiny
  RenSeq <- RensMC
  DocSet = {""}
  IntFull = FALSE
  Family = "all"
  MaxFields = 2
  MaxDepth = 3
  MaxItems = 3
  MaxNodes = 6
  Leaves = {1, 2}
  GenSizes <- SizesNone
  NVals = 0
SPECIFICATION Spec
INVARIANTS RoundTrip
CHECK_DEADLOCK FALSE
