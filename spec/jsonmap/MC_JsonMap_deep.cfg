\* exhaustive, thorough: deep literals - nesting <= 6, <= 2 items per container, <= 7 nodes
CONSTANTS
  Dev = {}
  Modes = {"lit"}
  BaseSeq <- BasesQuick
  WrapSeq <- WrapsAll
  RenSeq <- RensMC
  DocSet = {FALSE}
  Family = "all"
  MaxFields = 2
  MaxDepth = 6
  MaxItems = 2
  MaxNodes = 7
  Leaves = {1}
  GenSizes <- SizesNone
  NVals = 0
SPECIFICATION Spec
INVARIANTS MacroOk LitBounded
CHECK_DEADLOCK FALSE
