\* sensitivity: Option<T>::from_json trying T first must violate RoundTrip (T = O, every member optional)
CONSTANTS
  Dev = {"OptInnerFirst"}
  Modes = {"decl"}
  BaseSeq <- BasesOpt
  WrapSeq <- WrapsAll
  RenSeq <- RensMC
  DocSet = {""}
  IntFull = FALSE
  Family = "all"
  MaxFields = 1
  MaxDepth = 3
  MaxItems = 3
  MaxNodes = 6
  Leaves = {1, 2}
  GenSizes <- SizesNone
  NVals = 0
SPECIFICATION Spec
INVARIANTS RoundTrip
CHECK_DEADLOCK FALSE
