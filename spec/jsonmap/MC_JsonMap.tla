---------------------------- MODULE MC_JsonMap ----------------------------
(* TLC-only definitions for JsonMap: constant catalogues for the configurations and the generation
   invariants that print one JSON line per declaration / literal for the program generator. *)
EXTENDS JsonMap, Json

B(base, a) == [base |-> base, a |-> a]
IntBases(kinds) == [i \in 1..Len(kinds) |-> B("Int", kinds[i])]
RefBases == <<B("Ref", "E"), B("Ref", "P"), B("Ref", "N"), B("Ref", "M"), B("Ref", "O")>>
\* every base type: bool, the 12 integer kinds, f64, String, the five library declarations
BasesAll   == <<B("Bool", "")>> \o IntBases(IntKindsAll) \o <<B("F64", ""), B("F32", ""), B("Str", "")>> \o RefBases
BasesInts  == IntBases(IntKindsAll)
WrapsInts  == << <<>>, <<"Opt">>, <<"Vec">>, <<"Vec", "Opt">> >>
BasesQuick == <<B("Bool", ""), B("Int", "u8"), B("Int", "i64"), B("Int", "u128"), B("F64", ""), B("Str", ""), B("Ref", "E"), B("Ref", "N")>>
BasesMid   == <<B("Bool", ""), B("Int", "u8"), B("Int", "i32"), B("Int", "i64"), B("Int", "u64"), B("Int", "i128"), B("Int", "usize"),
                B("F64", ""), B("Str", "")>> \o RefBases
BasesTiny  == <<B("Int", "i64"), B("Str", ""), B("Ref", "E")>>
BasesOpt   == <<B("Int", "i64"), B("Ref", "O")>>
WrapsAll   == << <<>>, <<"Opt">>, <<"Vec">>, <<"Opt", "Vec">>, <<"Vec", "Opt">>, <<"Vec", "Vec">> >>
WrapsTiny  == << <<>>, <<"Opt">>, <<"Vec">> >>
\* renames for the exhaustive runs: two ordinary ones and one that is also a field identifier ("a")
RensMC     == << "a b", "with \"quotes\"", "a" >>
NoBases    == <<B("Bool", "")>>
DocAll     == {"", "doc", "allow", "after"}

\* ------------------------------------------------------------------------------------------------
\* Generation.  One line per declaration of the rotating family (all sizes in GenSizes whose first
\* type index is a multiple of the size: every catalogue type occurs once per (kind, via, size)),
\* with NVals values, the expectation for Dev = {} and for each single attributable deviation.
\* ------------------------------------------------------------------------------------------------
CONSTANTS GenSizes,     \* [named_derive |-> {..}, named_map |-> {..}, tuple_derive |-> {..}, enum_derive |-> {..}]
          NVals         \* values per declaration
AttrDevs == <<"IntBeyond2p53", "NullTruncatesArray", "DocAttrPanics">>
SizesNone     == [named_derive |-> {}, named_map |-> {}, tuple_derive |-> {}, enum_derive |-> {}]
SizesInts     == [named_derive |-> {4}, named_map |-> {4}, tuple_derive |-> {4}, enum_derive |-> {}]
SizesQuick    == [named_derive |-> {3, 4}, named_map |-> {3}, tuple_derive |-> {2, 3}, enum_derive |-> {3}]
SizesThorough == [named_derive |-> {1, 2, 3, 4, 6}, named_map |-> {1, 2, 3, 5}, tuple_derive |-> {1, 2, 3, 4, 6}, enum_derive |-> {1, 2, 3, 4, 5, 6}]

KV(d) == d.kind \o "_" \o d.via
Take(s, n) == SubSeq(s, 1, IF Len(s) < n THEN Len(s) ELSE n)
\* what a single deviation would make the implementation show instead (only when it differs)
Alt(e, o) == IF o = e THEN [same |-> TRUE] ELSE [same |-> FALSE, o |-> o]
\* Which deviation can change what a typed-mapping vector shows at all (an optimisation of the generation only: for the
\* others the alternative is not computed and the vector can then never be attributed to them, which errs on the
\* side of reporting): integer rounding needs an integer kind wider than 53 bits somewhere in the program, the derive
\* panic needs a program it rejects, and the array muncher defect is not reachable from any expansion of a mapping.
WideInt(P) == \E i \in 1..Len(P) : \E h \in 1..Len(P[i].fields) :
                 P[i].fields[h].ty.base = "Int" /\ IntBits(P[i].fields[h].ty.a) > 53
CanAffect(dev, P) == CASE dev = "IntBeyond2p53" -> WideInt(P)
                       [] dev = "DocAttrPanics" -> ~ProgCompiles(P, {dev})
                       [] OTHER -> FALSE
Emit(d) ==
  LET P == Prog(d)
      vs == Take(DeclVals(d, P), NVals) IN
  PrintT(ToJson([kind |-> "map", prog |-> P, d |-> d.name,
                 vecs |-> [q \in 1..Len(vs) |->
                            LET e == Observe(vs[q], d, P, {}) IN
                            [v |-> vs[q],
                             doc |-> Canon(ShapeD(vs[q], d, P)),
                             exp |-> e,
                             alt |-> [a \in 1..Len(AttrDevs) |->
                                        IF CanAffect(AttrDevs[a], P) THEN Alt(e, Observe(vs[q], d, P, {AttrDevs[a]}))
                                        ELSE [same |-> TRUE]]]]]))
InFamily(d) == /\ Len(d.fields) \in GenSizes[KV(d)]
               /\ d.kind = "enum" \/ (first - 1) % Len(d.fields) = 0
GenDeclInv == (HasDecl /\ InFamily(cur)) => Emit(cur)

\* the library declarations as programs of their own
GenLibInit == (\A i \in 1..Len(Lib) : Emit(Lib[i])) /\ Init

EmitLit(n) ==
  LET e == ObserveLit(n, {}) IN
  PrintT(ToJson([kind |-> "lit", ast |-> n, src |-> Src(n), doc |-> Canon(DenoteLit(n)),
                 exp |-> e,
                 alt |-> [a \in 1..Len(AttrDevs) |-> Alt(e, ObserveLit(n, {AttrDevs[a]}))]]))
GenLitInv == HasLit => EmitLit(lit)

\* the catalogues the program generator needs (leaf / key sources are Rust text, see gen/src/support.rs for the bindings)
GenCatInit == PrintT(ToJson([kind |-> "cat",
                 intkinds |-> [i \in 1..Len(IntKindsAll) |-> [name |-> IntKindsAll[i], bits |-> IntBits(IntKindsAll[i]), signed |-> Signed(IntKindsAll[i])]],
                 renames |-> RenCat, strings |-> StrCat, f64s |-> F64Cat,
                 leaves |-> [i \in 1..Len(LeafCat) |-> [src |-> LeafCat[i].src, j |-> Canon(LeafCat[i].j)]],
                 keys |-> KeyCat, env |-> LeafEnv, fieldids |-> FieldIds, varids |-> VarIds, attr |-> AttrDevs])) /\ Init
=============================================================================
