\* generation: every expression leaf in every kind of position (<= 3 nodes)
CONSTANTS
  Dev = {}
  Modes = {"lit"}
  BaseSeq <- BasesQuick
  WrapSeq <- WrapsAll
  RenSeq <- RensMC
  DocSet <- DocAll
  IntFull = FALSE
  Family = "all"
  MaxFields = 2
  MaxDepth = 2
  MaxItems = 2
  MaxNodes = 3
  Leaves = {1,2,3,4,5,6,7,8,9,10,11,12,13,14,15,16}
  GenSizes <- SizesNone
  NVals = 0
SPECIFICATION Spec
INVARIANTS GenLitInv
CHECK_DEADLOCK FALSE
