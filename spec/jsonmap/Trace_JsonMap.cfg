CONSTANTS
  Dev = {}
  Modes = {}
  BaseSeq <- NoSeq
  WrapSeq <- NoSeq
  RenSeq <- NoSeq
  DocSet = {}
  IntFull = FALSE
  Family = "all"
  MaxFields = 0
  MaxDepth = 0
  MaxItems = 0
  MaxNodes = 0
  Leaves = {}
INIT TInit
NEXT TNext
INVARIANTS ExpectInv AllAgree
CHECK_DEADLOCK FALSE
