\* exhaustive: every two-field declaration over {i64, String, E} x {T, Option<T>, Vec<T>} x renames (incl. a rename equal to a field identifier), every combination of values
CONSTANTS
  Dev = {}
  Modes = {"decl"}
  BaseSeq <- BasesTiny
  WrapSeq <- WrapsTiny
  RenSeq <- RensMC
  DocSet = {""}
  IntFull = FALSE
  Family = "all"
  MaxFields = 2
  MaxDepth = 3
  MaxItems = 3
  MaxNodes = 6
  Leaves = {1, 2}
  GenSizes <- SizesNone
  NVals = 0
SPECIFICATION Spec
INVARIANTS ShapeOk RoundTrip DocReadsBack
CHECK_DEADLOCK FALSE
