\* generation: the catalogues
CONSTANTS
  Dev = {}
  Modes = {"lit"}
  BaseSeq <- NoBases
  WrapSeq <- WrapsAll
  RenSeq <- RensMC
  DocSet <- DocAll
  IntFull = FALSE
  Family = "all"
  MaxFields = 1
  MaxDepth = 3
  MaxItems = 3
  MaxNodes = 0
  Leaves = {1, 2}
  GenSizes <- SizesNone
  NVals = 0
INIT GenCatInit
NEXT Next
INVARIANTS LitBounded
CHECK_DEADLOCK FALSE
