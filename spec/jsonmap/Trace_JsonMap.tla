--------------------------- MODULE Trace_JsonMap ---------------------------
(* Code -> spec direction for C14.  The driver writes an ndjson file with one record per vector that the
   generated program executed on the real humphrey_json (programs and literals drawn at random, larger
   than what the exhaustive configurations enumerate: 1..6 declarations referring to each other, up to
   8 fields, wrapper stacks up to 3, integers anywhere in their range, literals to depth 6):
     kind = "map":  id, prog (declarations in JsonMap's encoding), d (name), v (the value),
                    compiled (FALSE: rustc rejected the module), obs (Canon of v.to_json()), rt, rtt, pe, fe, sp, panic
     kind = "lit":  id, ast, compiled, obs (Canon of json!(..)), eq (== Value::parse(equivalent text)), panic
   TLC evaluates the theorems of JsonMap on each record: the observation must be what Dev = {} predicts.
   A record that instead shows exactly what one deviation of AttrDevs predicts is listed as attributed
   to it; anything else is rejected.  With EXPECT = "1" nothing is judged: the documented JSON of each
   input is printed (the driver renders it as the "equivalent JSON text" the program compares with). *)
EXTENDS JsonMap, Json, IOUtils

Rec == ndJsonDeserialize(IOEnv.TRACE)
AttrDevs == <<"IntBeyond2p53", "NullTruncatesArray", "DocAttrPanics">>
NoSeq == <<>>

\* the inputs must lie in the property's domain
RECURSIVE OptOpt(_)
OptOpt(w) == Len(w) >= 2 /\ ((w[1] = "Opt" /\ w[2] = "Opt") \/ OptOpt(Tail(w)))
InDomain(r) ==
  IF r.kind = "map"
  THEN \A i \in 1..Len(r.prog) :
          /\ WellFormed(r.prog[i]) /\ r.prog[i].fields # <<>>
          /\ \A h \in 1..Len(r.prog[i].fields) :
                LET ty == r.prog[i].fields[h].ty IN
                /\ ~OptOpt(ty.w)
                /\ ty.base = "Ref" => \E g \in 1..(i - 1) : r.prog[g].name = ty.a     \* only earlier declarations
  ELSE LitDepth(r.ast) <= 8

MapAgrees(r, D) ==
  LET d == Lookup(r.prog, r.d)
      o == Observe(r.v, d, r.prog, D) IN
  /\ r.compiled = o.c
  /\ r.compiled =>
       /\ r.panic = ""
       /\ r.obs = o.obs
       /\ r.rt = o.rt /\ r.rtt = o.rt          \* the round trip through text has the same verdict (serialise/parse: C13)
       /\ r.pe = o.pe /\ r.fe = o.fe
       /\ r.sp                                  \* Value::parse(to_string(v)) == to_json(v)
LitAgrees(r, D) ==
  LET o == ObserveLit(r.ast, D) IN
  /\ r.compiled = o.ok
  /\ r.compiled => (r.panic = "" /\ r.obs = o.obs /\ r.eq = o.eq)
Agrees(r, D) == IF r.kind = "map" THEN MapAgrees(r, D) ELSE LitAgrees(r, D)

(* Second level: the property as STATED, free of this model's choices.  The statement demands (i) the value comes back
   from the JSON (as a value and through its text), (ii) the JSON is an object keyed by the field / renamed names, an
   array for tuple structs, a string for enum variants, (iii) a json! literal equals, by the crate's own ==, the parse
   of the equivalent text.  It does NOT fix the order of an object's members, nor that the documented text in
   declaration order reads back / compares equal under an order-sensitive == (pe, fe), nor serialiser/parser agreement
   (sp, C13).  An observation the code model cannot explain but that satisfies this reading is DRIFT of the model,
   not a violation.  Arrays stay ordered; member names are distinct in the domain (WellFormed / distinct keys). *)
RECURSIVE SameModOrder(_, _)
SameModOrder(a, b) ==
  /\ a.t = b.t /\ a.s = b.s /\ Len(a.c) = Len(b.c) /\ Len(a.k) = Len(b.k)
  /\ IF a.t = "obj"
     THEN \A i \in 1..Len(a.k) : \E j \in 1..Len(b.k) : a.k[i] = b.k[j] /\ SameModOrder(a.c[i], b.c[j])
     ELSE \A i \in 1..Len(a.c) : SameModOrder(a.c[i], b.c[i])
PropAgrees(r, D) ==
  IF r.kind = "map"
  THEN LET o == Observe(r.v, Lookup(r.prog, r.d), r.prog, D) IN
       /\ r.compiled = o.c
       /\ r.compiled => (r.panic = "" /\ r.rt = o.rt /\ r.rtt = o.rt /\ SameModOrder(r.obs, o.obs))
  ELSE LET o == ObserveLit(r.ast, D) IN
       /\ r.compiled = o.ok
       /\ r.compiled => (r.panic = "" /\ r.eq = o.eq /\ SameModOrder(r.obs, o.obs))

(* Inputs that lie beyond the statement's quantifier (growth of the check): f32 fields ("bool, integers, f64, String"),
   json! member names that are not string literals (the documentation only shows string-literal keys), containers with
   20 or more items (their expansion depth depends on how many macro steps an element costs). A disagreement on such
   an input is reported as drift. *)
RECURSIVE LitBeyond(_)
LitBeyond(n) == \/ Len(n.items) >= 20
                \/ (n.k = "obj" /\ \E i \in 1..Len(n.ks) : n.ks[i] \in NonLiteralKeys)
                \/ \E i \in 1..Len(n.items) : LitBeyond(n.items[i])
Beyond(r) == IF r.kind = "map"
             THEN \E i \in 1..Len(r.prog) : \E h \in 1..Len(r.prog[i].fields) : r.prog[i].fields[h].ty.base = "F32"
             ELSE LitBeyond(r.ast)

\* "ok" | a deviation name (strictly, or on the statement's level) | "drift" | "rejected" | "baddomain"
Verdict(r) ==
  IF ~InDomain(r) THEN "baddomain"
  ELSE IF Agrees(r, {}) THEN "ok"
  ELSE IF \E a \in 1..Len(AttrDevs) : Agrees(r, {AttrDevs[a]})
       THEN AttrDevs[CHOOSE a \in 1..Len(AttrDevs) : Agrees(r, {AttrDevs[a]})]
  ELSE IF PropAgrees(r, {}) THEN "drift"
  ELSE IF \E a \in 1..Len(AttrDevs) : PropAgrees(r, {AttrDevs[a]})
       THEN AttrDevs[CHOOSE a \in 1..Len(AttrDevs) : PropAgrees(r, {AttrDevs[a]})]
  ELSE IF Beyond(r) THEN "drift"
  ELSE "rejected"

VARIABLES l, bad, att, dri
tvars == <<l, bad, att, dri>>
TInit == /\ mode = "trace" /\ cur = NoDecl /\ first = 0 /\ stk = <<>> /\ lit = NoLit /\ nn = 0
         /\ l = 1 /\ bad = <<>> /\ att = <<>> /\ dri = <<>>
Expecting == IOEnv.EXPECT = "1"
TNext == /\ l <= Len(Rec)
         /\ l' = l + 1
         /\ LET vd == IF Expecting THEN "ok" ELSE Verdict(Rec[l]) IN
            /\ bad' = IF vd \in {"rejected", "baddomain"} THEN Append(bad, [id |-> Rec[l].id, why |-> vd]) ELSE bad
            /\ att' = IF vd \notin {"ok", "rejected", "baddomain", "drift"} THEN Append(att, [id |-> Rec[l].id, dev |-> vd]) ELSE att
            /\ dri' = IF vd = "drift" THEN Append(dri, [id |-> Rec[l].id, beyond |-> Beyond(Rec[l])]) ELSE dri
         /\ UNCHANGED vars
TSpec == TInit /\ [][TNext]_<<vars, tvars>>

\* EXPECT mode: one line per input with its documented JSON
ExpectInv ==
  (Expecting /\ l <= Len(Rec)) =>
     LET r == Rec[l] IN
     PrintT(ToJson([id |-> r.id,
                    doc |-> IF r.kind = "map" THEN Canon(ShapeD(r.v, Lookup(r.prog, r.d), r.prog)) ELSE Canon(DenoteLit(r.ast)),
                    src |-> IF r.kind = "lit" THEN Src(r.ast) ELSE "",
                    indomain |-> InDomain(r)]))

\* checked at the last state: every record consumed; the summary is printed for the driver
AllAgree ==
  (~Expecting /\ l = Len(Rec) + 1) =>
     /\ PrintT(ToJson([summary |-> TRUE, n |-> Len(Rec), rejected |-> bad, attributed |-> att, drift |-> dri]))
     /\ bad = <<>>
=============================================================================
