\* sensitivity: Dev={IntBeyond2p53} must violate RoundTrip (2^53+1 comes back as 2^53)
CONSTANTS
  Dev = {"IntBeyond2p53"}
  Modes = {"decl"}
  BaseSeq <- BasesTiny
  WrapSeq <- WrapsTiny
  RenSeq <- RensMC
  DocSet = {""}
  IntFull = FALSE
  Family = "all"
  MaxFields = 1
  MaxDepth = 3
  MaxItems = 3
  MaxNodes = 6
  Leaves = {1, 2}
  GenSizes <- SizesNone
  NVals = 0
SPECIFICATION Spec
INVARIANTS RoundTrip
CHECK_DEADLOCK FALSE
