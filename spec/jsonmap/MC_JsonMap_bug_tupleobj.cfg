\* sensitivity: a tuple struct emitted as an object must violate ShapeOk
CONSTANTS
  Dev = {"TupleAsObject"}
  Modes = {"decl"}
  BaseSeq <- BasesTiny
  WrapSeq <- WrapsTiny
  RenSeq <- RensMC
  DocSet = {""}
  IntFull = FALSE
  Family = "all"
  MaxFields = 1
  MaxDepth = 3
  MaxItems = 3
  MaxNodes = 6
  Leaves = {1, 2}
  GenSizes <- SizesNone
  NVals = 0
SPECIFICATION Spec
INVARIANTS ShapeOk
CHECK_DEADLOCK FALSE
