\* sensitivity: the array defect transplanted to objects must violate MacroOk
CONSTANTS
  Dev = {"ObjNullDropsRest"}
  Modes = {"lit"}
  BaseSeq <- BasesQuick
  WrapSeq <- WrapsAll
  RenSeq <- RensMC
  DocSet = {""}
  IntFull = FALSE
  Family = "all"
  MaxFields = 2
  MaxDepth = 3
  MaxItems = 3
  MaxNodes = 4
  Leaves = {1, 2}
  GenSizes <- SizesNone
  NVals = 0
SPECIFICATION Spec
INVARIANTS MacroOk
CHECK_DEADLOCK FALSE
