\* sensitivity: dropping None elements of a Vec<Option<T>> must violate RoundTrip
CONSTANTS
  Dev = {"VecNoneDropped"}
  Modes = {"decl"}
  BaseSeq <- BasesTiny
  WrapSeq <- WrapsAll
  RenSeq <- RensMC
  DocSet = {""}
  IntFull = FALSE
  Family = "all"
  MaxFields = 1
  MaxDepth = 3
  MaxItems = 3
  MaxNodes = 6
  Leaves = {1, 2}
  GenSizes <- SizesNone
  NVals = 0
SPECIFICATION Spec
INVARIANTS RoundTrip
CHECK_DEADLOCK FALSE
