------------------------------ MODULE JsonMap ------------------------------
(* Property C14: typed JSON mapping (derive FromJson/IntoJson, json_map!) and the json! macro.

   Two things are specified here and related to each other.

   (1) WHAT IS PROMISED (documentation, docs/src/json/data-structures.md and the property text)
         Shape(v, d, P)    the JSON a value v of declared type d has: an object keyed by field name or
                           rename in declaration order (named struct), an array (tuple struct), a
                           string (unit-variant enum); Option -> null | inner, Vec -> array.
         DenoteLit(n)      the JSON value a json! literal n stands for: the value of "the equivalent
                           JSON text" - null, arrays, objects, Rust expressions as leaves, a trailing
                           comma means nothing.
   (2) WHAT THE CODE DOES (humphrey-json/src/macros.rs, traits.rs, humphrey-json-derive/src/*.rs)
         JsonM / ArrM / ObjM   the macro_rules! token munchers json!, json_array_internal!,
                               json_object_internal!, one case per macro arm, in arm order;
         ToJI(v, d, P, D)      the to_json the derive macros / json_map! expand to (the named-struct
                               expansions go *through* json!, i.e. through ObjM);
         FromJI(j, d, P)       the generated from_json (value.get(key).unwrap_or(Null), length check for
                               tuple structs, string match for enums, `as` casts for numbers).
   The theorems TLC checks over the bounded space of declarations x values and literals:
         ShapeOk      ToJI(v) = Shape(v)                    RoundTrip   FromJI(ToJI(v)) = v
         DocReadsBack FromJI(Shape(v)) = v                  MacroCorrect JsonM(Toks(n)) = DenoteLit(n)

   D (a set of names; the constant Dev for the theorems) switches named deviations:
     NullTruncatesArray  macros.rs, json_array_internal!, arm "Next value is `null`" does not pass $rest on:
                         json!([null, 1, 2]) = [null]                         (defect of the shipped code)
     DocAttrPanics       humphrey-json-derive named_struct.rs / enum_type.rs: a field or variant that carries any
                         attribute (a `/// doc` comment is one) but no `rename` makes the derive macro panic
                         ("Unknown attribute"): the program does not compile                (defect of the shipped code)
     IntBeyond2p53       traits.rs: integers become Value::Number(self as f64): |v| > 2^53 is rounded to
                         the nearest f64 (ties to even); from_json casts back with saturation (open by design)
   and, only to show that the theorems are not vacuous (sensitivity configs; none of these is in the code):
     ObjNullDropsRest, DropLastElem, KeyIgnoresRename, RenameMustBeFirst (only the first attribute is looked at),
     TupleAsObject, NoneOmitted, VecNoneDropped (None elements of a Vec<Option<T>> skipped), AllowDupKeys,
     OptInnerFirst (Option<T>::from_json lets T read the value before looking for null: a T that accepts null - a
     named struct whose members are all optional - turns None into Some(all None)).

   Representation.  TLC cannot compare values of different shapes, so every universe is ONE record shape:
     JSON value  [t, s, b, f, k, c]  t in null|bool|num|str|arr|obj ; numbers are sign s, magnitude bits b
                                     (most significant first, <<>> = 0: TLC integers are 32 bit) and a
                                     fractional digit string f ; k = member names, c = children
     Rust value  [t, s, b, f, c]     t in bool|int|f64|str|none|some|vec|struct|enum
     field type  [base, a, w]        base in Bool|Int|F64|Str|Ref|Unit, a = integer kind / referenced
                                     declaration, w = wrappers outermost first, e.g. <<"Opt","Vec">>
     declaration [name, kind, via, fields]   kind named|tuple|enum, via derive|map,
                                     fields = <<[id, hasRen, ren, doc, ty]>> (variants for enums); doc = which other
                                     attribute the member carries: "" none, "doc" a /// comment before #[rename],
                                     "allow" #[allow(dead_code)] before #[rename], "after" a /// comment after it
     token       [k, s, j, g]        k in null|comma|colon|expr|brack|brace ; an `expr` token stands for a
                                     complete Rust expression with source s and value j ; g = group content
     literal     [k, e, tc, ks, items]   k in empty|null|expr|arr|obj, e = leaf index, tc = trailing comma *)
EXTENDS Naturals, Sequences, FiniteSets, TLC

CONSTANTS Dev,        \* deviations in force for the theorems
          Modes,      \* which enumerators run: subset of {"decl", "lit"}
          BaseSeq,    \* base types offered to the declaration enumerator (sequence of [base, a])
          WrapSeq,    \* wrapper stacks offered (sequence of sequences)
          RenSeq,     \* rename strings offered (sequence)
          DocSet,     \* other attributes a member may carry: subset of {"", "doc", "allow", "after"}
          IntFull,    \* TRUE: the full integer catalogue (powers of two +-1), FALSE: the core one
          Family,     \* "all": every field type / rename combination; "rot": the rotating family (generation)
          MaxFields,
          MaxDepth, MaxItems, MaxNodes, Leaves   \* literal bound: nesting, items per container, nodes, leaf indices

Range(f) == { f[i] : i \in DOMAIN f }
Last(s)  == s[Len(s)]
Front(s) == SubSeq(s, 1, Len(s) - 1)

(***************************************************************************)
(* Natural numbers of arbitrary size: bit sequences, most significant first *)
(***************************************************************************)
Zeros(n) == [i \in 1..n |-> 0]
Ones(n)  == [i \in 1..n |-> 1]
Pow2(e)  == <<1>> \o Zeros(e)
RECURSIVE Norm(_)
Norm(b) == IF b # <<>> /\ Head(b) = 0 THEN Norm(Tail(b)) ELSE b
RECURSIVE Inc(_)
Inc(b) == IF b = <<>> THEN <<1>>
          ELSE IF Last(b) = 0 THEN [b EXCEPT ![Len(b)] = 1] ELSE Inc(Front(b)) \o <<0>>
RECURSIVE DecRaw(_)
DecRaw(b) == IF Last(b) = 1 THEN [b EXCEPT ![Len(b)] = 0] ELSE DecRaw(Front(b)) \o <<1>>
Pred(b) == Norm(DecRaw(b))                       \* b - 1, for b > 0
Less(a, b) == \/ Len(a) < Len(b)
              \/ Len(a) = Len(b) /\ \E i \in 1..Len(a) : a[i] < b[i] /\ \A j \in 1..(i - 1) : a[j] = b[j]

\* IEEE-754 binary64 rounding of a natural number: 53 significant bits, round to nearest, ties to even
RoundF64(b) ==
  IF Len(b) <= 53 THEN b
  ELSE LET top    == SubSeq(b, 1, 53)
           guard  == b[54]
           sticky == \E i \in 55..Len(b) : b[i] = 1
           up     == guard = 1 /\ (sticky \/ top[53] = 1)
       IN (IF up THEN Inc(top) ELSE top) \o Zeros(Len(b) - 53)

\* decimal rendering (digits least significant first while computing)
RECURSIVE DblAdd(_, _)
DblAdd(d, c) == IF d = <<>> THEN (IF c = 0 THEN <<>> ELSE <<c>>)
                ELSE LET x == 2 * Head(d) + c IN <<x % 10>> \o DblAdd(Tail(d), x \div 10)
RECURSIVE DecDigits(_)
DecDigits(b) == IF b = <<>> THEN <<>> ELSE DblAdd(DecDigits(Front(b)), Last(b))
RECURSIVE DigStr(_)
DigStr(d) == IF d = <<>> THEN "" ELSE DigStr(Tail(d)) \o ToString(Head(d))
DecStr(b) == IF b = <<>> THEN "0" ELSE DigStr(DecDigits(b))

(***************************************************************************)
(* JSON values                                                             *)
(***************************************************************************)
JNull        == [t |-> "null", s |-> "", b |-> <<>>, f |-> "", k |-> <<>>, c |-> <<>>]
JBool(x)     == [t |-> "bool", s |-> x, b |-> <<>>, f |-> "", k |-> <<>>, c |-> <<>>]      \* x = "true" | "false"
JNum(sg, m, fr) == [t |-> "num", s |-> (IF m = <<>> /\ fr = "" THEN "" ELSE sg), b |-> m, f |-> fr, k |-> <<>>, c |-> <<>>]
JStr(x)      == [t |-> "str", s |-> x, b |-> <<>>, f |-> "", k |-> <<>>, c |-> <<>>]
JArr(xs)     == [t |-> "arr", s |-> "", b |-> <<>>, f |-> "", k |-> <<>>, c |-> xs]
JObj(ks, xs) == [t |-> "obj", s |-> "", b |-> <<>>, f |-> "", k |-> ks, c |-> xs]

\* what Value::get(key) returns: the FIRST member with that name (indexing.rs), None -> Null at the call sites
Member(j, key) ==
  IF j.t = "obj" /\ \E i \in 1..Len(j.k) : j.k[i] = key
  THEN j.c[CHOOSE i \in 1..Len(j.k) : j.k[i] = key /\ \A h \in 1..(i - 1) : j.k[h] # key]
  ELSE JNull

\* the observable form compared with the implementation: numbers as decimal text
RECURSIVE Canon(_)
Canon(j) == [t |-> j.t,
             s |-> IF j.t = "num" THEN j.s \o DecStr(j.b) \o (IF j.f = "" THEN "" ELSE "." \o j.f) ELSE j.s,
             k |-> j.k,
             c |-> [i \in 1..Len(j.c) |-> Canon(j.c[i])]]

\* every number of a JSON *text* read by an implementation whose numbers are f64
RECURSIVE AsF64(_, _)
AsF64(j, D) ==
  IF "IntBeyond2p53" \notin D THEN j
  ELSE IF j.t = "num" /\ j.f = "" THEN JNum(j.s, RoundF64(j.b), "")
  ELSE [j EXCEPT !.c = [i \in 1..Len(j.c) |-> AsF64(j.c[i], D)]]

(***************************************************************************)
(* Rust values and types                                                   *)
(***************************************************************************)
VBool(x)       == [t |-> "bool", s |-> x, b |-> <<>>, f |-> "", c |-> <<>>]
VInt(sg, m)    == [t |-> "int", s |-> (IF m = <<>> THEN "" ELSE sg), b |-> m, f |-> "", c |-> <<>>]
VF64(sg, m, fr) == [t |-> "f64", s |-> (IF m = <<>> /\ fr = "" THEN "" ELSE sg), b |-> m, f |-> fr, c |-> <<>>]
VStr(x)        == [t |-> "str", s |-> x, b |-> <<>>, f |-> "", c |-> <<>>]
VNone          == [t |-> "none", s |-> "", b |-> <<>>, f |-> "", c |-> <<>>]
VSome(x)       == [t |-> "some", s |-> "", b |-> <<>>, f |-> "", c |-> <<x>>]
VVec(xs)       == [t |-> "vec", s |-> "", b |-> <<>>, f |-> "", c |-> xs]
VStruct(xs)    == [t |-> "struct", s |-> "", b |-> <<>>, f |-> "", c |-> xs]
VEnum(id)      == [t |-> "enum", s |-> id, b |-> <<>>, f |-> "", c |-> <<>>]

Ty(base, a, w) == [base |-> base, a |-> a, w |-> w]
UnitTy         == Ty("Unit", "", <<>>)
Field(id, hasRen, ren, doc, ty) == [id |-> id, hasRen |-> hasRen, ren |-> ren, doc |-> doc, ty |-> ty]
Decl(name, kind, via, fields) == [name |-> name, kind |-> kind, via |-> via, fields |-> fields]
NoDecl == Decl("", "none", "", <<>>)

IntKindsAll == <<"u8", "u16", "u32", "u64", "u128", "usize", "i8", "i16", "i32", "i64", "i128", "isize">>
Signed(kind) == kind \in {"i8", "i16", "i32", "i64", "i128", "isize"}
IntBits(kind) == CASE kind \in {"u8", "i8"} -> 8 [] kind \in {"u16", "i16"} -> 16 [] kind \in {"u32", "i32"} -> 32
                   [] kind \in {"u64", "i64", "usize", "isize"} -> 64       \* usize = 64 bit: the harness runs on x86_64
                   [] kind \in {"u128", "i128"} -> 128
MaxMag(kind) == Ones(IF Signed(kind) THEN IntBits(kind) - 1 ELSE IntBits(kind))
MinMag(kind) == IF Signed(kind) THEN Pow2(IntBits(kind) - 1) ELSE <<>>

\* the key under which a field travels; json_map! always names it, derive uses the rename or the identifier
Key(fl) == IF fl.hasRen THEN fl.ren ELSE fl.id
Keys(d) == [i \in 1..Len(d.fields) |-> Key(d.fields[i])]
\* precondition of the property (not stated in the documentation, found by TLC: see MC_JsonMap_dupkeys.cfg):
\* two fields / variants of one type must not travel under the same name
WellFormed(d) == \A i, h \in 1..Len(d.fields) : i # h => Key(d.fields[i]) # Key(d.fields[h])
Lookup(P, name) == P[CHOOSE i \in 1..Len(P) : P[i].name = name]
Inner(ty) == [ty EXCEPT !.w = Tail(@)]

(***************************************************************************)
(* (1) The documented shape                                                *)
(***************************************************************************)
RECURSIVE Shape(_, _, _), ShapeD(_, _, _)
Shape(v, ty, P) ==
  IF ty.w # <<>> THEN
     IF Head(ty.w) = "Opt" THEN (IF v.t = "none" THEN JNull ELSE Shape(v.c[1], Inner(ty), P))
     ELSE JArr([i \in 1..Len(v.c) |-> Shape(v.c[i], Inner(ty), P)])
  ELSE CASE ty.base = "Bool" -> JBool(v.s)
         [] ty.base = "Int"  -> JNum(v.s, v.b, "")
         [] ty.base \in {"F64", "F32"} -> JNum(v.s, v.b, v.f)
         [] ty.base = "Str"  -> JStr(v.s)
         [] ty.base = "Ref"  -> ShapeD(v, Lookup(P, ty.a), P)
ShapeD(v, d, P) ==
  CASE d.kind = "named" -> JObj(Keys(d), [i \in 1..Len(d.fields) |-> Shape(v.c[i], d.fields[i].ty, P)])
    [] d.kind = "tuple" -> JArr([i \in 1..Len(d.fields) |-> Shape(v.c[i], d.fields[i].ty, P)])
    [] d.kind = "enum"  -> JStr(Key(d.fields[CHOOSE i \in 1..Len(d.fields) : d.fields[i].id = v.s]))

(***************************************************************************)
(* The json! literal language and its meaning                              *)
(***************************************************************************)
\* expression leaves: Rust source and the JSON value Rust's semantics and `impl IntoJson` give it (trusted)
Leaf(src, j) == [src |-> src, j |-> j]
LeafCat == <<
  Leaf("1", JNum("", <<1>>, "")),
  Leaf("\"s\"", JStr("s")),
  Leaf("-2", JNum("-", <<1, 0>>, "")),
  Leaf("true", JBool("true")),
  Leaf("(1 + 2)", JNum("", <<1, 1>>, "")),
  Leaf("1.5", JNum("", <<1>>, "5")),
  Leaf("none_i32", JNull),
  Leaf("some_str", JStr("x y")),
  Leaf("string_var.clone()", JStr("q\"b\\ é")),
  Leaf("&vec_u8", JArr(<<JNum("", <<1>>, ""), JNum("", <<1, 0>>, "")>>)),
  Leaf("some_u16.map(|n| n * 2)", JNum("", <<1, 0, 0>>, "")),
  Leaf("pair(1, 2)", JNum("", <<1, 1>>, "")),
  Leaf("(-0.25)", JNum("-", <<>>, "25")),
  Leaf("false", JBool("false")),
  Leaf("u64_var", JNum("", <<1, 1, 1>>, "")),
  Leaf("str_var.len()", JNum("", <<1, 1>>, ""))
>>
\* the bindings the leaf and key sources refer to (Rust text, pasted in front of every generated literal)
LeafEnv == <<
  "let none_i32: Option<i32> = None;",
  "let some_str: Option<&str> = Some(\"x y\");",
  "let string_var: String = String::from(\"q\\\"b\\\\ é\");",
  "let vec_u8: Vec<u8> = vec![1, 2];",
  "let some_u16: Option<u16> = Some(2);",
  "fn pair(a: i32, b: i32) -> i32 { a + b }",
  "let u64_var: u64 = 7;",
  "let str_var: &str = \"abc\";",
  "let key_var: &str = \"from var\";",
  "let key_string: String = String::from(\"owned\");"
>>
\* member names: a single token tree that has .to_string() (string literal, variable, parenthesised expression)
KeyCat == << Leaf("\"a\"", "a"), Leaf("key_var", "from var"), Leaf("\"b c\"", "b c"), Leaf("(\"p\")", "p"),
             Leaf("\"q\\\"é\"", "q\"é"), Leaf("\"\"", ""), Leaf("key_string", "owned"), Leaf("\"{:,}\"", "{:,}"),
             Leaf("\"t\\tn\\n\\\\ \\u{1}\"", "t\tn\n\\ ") >>

\* the key forms that are not string literals (key_var, ("p"), key_string): beyond the documented use of json!
NonLiteralKeys == {2, 4, 7}

Lit(k, e, tc, ks, items) == [k |-> k, e |-> e, tc |-> tc, ks |-> ks, items |-> items]
NoLit     == Lit("none", 0, FALSE, <<>>, <<>>)
LitEmpty  == Lit("empty", 0, FALSE, <<>>, <<>>)            \* json!()
LitNull   == Lit("null", 0, FALSE, <<>>, <<>>)
LitExpr(e) == Lit("expr", e, FALSE, <<>>, <<>>)

RECURSIVE DenoteLit(_)
DenoteLit(n) ==
  CASE n.k \in {"null", "empty"} -> JNull
    [] n.k = "expr" -> LeafCat[n.e].j
    [] n.k = "arr"  -> JArr([i \in 1..Len(n.items) |-> DenoteLit(n.items[i])])
    [] n.k = "obj"  -> JObj([i \in 1..Len(n.items) |-> KeyCat[n.ks[i]].j], [i \in 1..Len(n.items) |-> DenoteLit(n.items[i])])

RECURSIVE LitDepth(_), LitNodes(_)
LitDepth(n) == IF n.k \in {"arr", "obj"}
               THEN 1 + (IF n.items = <<>> THEN 0 ELSE CHOOSE m \in {LitDepth(n.items[i]) : i \in 1..Len(n.items)} :
                                                          \A i \in 1..Len(n.items) : LitDepth(n.items[i]) <= m)
               ELSE 0
RECURSIVE SumSeq(_)
SumSeq(s) == IF s = <<>> THEN 0 ELSE Head(s) + SumSeq(Tail(s))
LitNodes(n) == 1 + SumSeq([i \in 1..Len(n.items) |-> LitNodes(n.items[i])])

(***************************************************************************)
(* (2) The macros as written: token trees and the three munchers           *)
(***************************************************************************)
Tk(k)        == [k |-> k, s |-> "", j |-> JNull, g |-> <<>>]
TNull        == Tk("null")
TComma       == Tk("comma")
TColon       == Tk("colon")
TExpr(src, j) == [k |-> "expr", s |-> src, j |-> j, g |-> <<>>]
TBrack(g)    == [k |-> "brack", s |-> "", j |-> JNull, g |-> g]
TBrace(g)    == [k |-> "brace", s |-> "", j |-> JNull, g |-> g]

RECURSIVE Toks(_), ItemToks(_, _)
ItemToks(n, i) ==      \* items i.. of container n, comma separated, with the trailing comma if n has one
  IF i > Len(n.items) THEN <<>>
  ELSE (IF n.k = "obj" THEN <<TExpr(KeyCat[n.ks[i]].src, JStr(KeyCat[n.ks[i]].j)), TColon>> ELSE <<>>)
       \o Toks(n.items[i])
       \o (IF i < Len(n.items) \/ n.tc THEN <<TComma>> ELSE <<>>)
       \o ItemToks(n, i + 1)
Toks(n) ==
  CASE n.k = "empty" -> <<>>
    [] n.k = "null"  -> <<TNull>>
    [] n.k = "expr"  -> <<TExpr(LeafCat[n.e].src, LeafCat[n.e].j)>>
    [] n.k = "arr"   -> <<TBrack(ItemToks(n, 1))>>
    [] n.k = "obj"   -> <<TBrace(ItemToks(n, 1))>>

\* the source text of a literal, as pasted into json!( ... ) by the program generator
RECURSIVE Src(_), ItemSrc(_, _)
ItemSrc(n, i) ==
  IF i > Len(n.items) THEN ""
  ELSE (IF n.k = "obj" THEN KeyCat[n.ks[i]].src \o ": " ELSE "") \o Src(n.items[i])
       \o (IF i < Len(n.items) THEN ", " ELSE IF n.tc THEN "," ELSE "") \o ItemSrc(n, i + 1)
Src(n) == CASE n.k = "empty" -> "" [] n.k = "null" -> "null" [] n.k = "expr" -> LeafCat[n.e].src
            [] n.k = "arr" -> "[" \o ItemSrc(n, 1) \o "]" [] n.k = "obj" -> "{" \o ItemSrc(n, 1) \o "}"

MOk(j) == [ok |-> TRUE, j |-> j]
MErr   == [ok |-> FALSE, j |-> JNull]            \* "no rules expected this token": a compile error

RECURSIVE JsonM(_, _), ArrM(_, _, _), ObjM(_, _, _, _)
\* macro_rules! json: arms () | (null) | ([ $($elems:tt)* ]) | ({}) | ({ $($elems:tt)* }) | ($v:expr)
JsonM(tt, D) ==
  IF tt = <<>> THEN MOk(JNull)
  ELSE IF Len(tt) # 1 THEN MErr
  ELSE LET h == tt[1] IN
       CASE h.k = "null"  -> MOk(JNull)
         [] h.k = "brack" -> ArrM(<<>>, h.g, D)
         [] h.k = "brace" -> IF h.g = <<>> THEN MOk(JObj(<<>>, <<>>)) ELSE ObjM(<<>>, <<>>, h.g, D)
         [] h.k = "expr"  -> MOk(h.j)                                  \* Value::from($v)
         [] OTHER         -> MErr

\* macro_rules! json_array_internal: ([ accumulated ] rest...)
ArrM(el, rest, D) ==
  IF rest = <<>> THEN MOk(JArr(el))                                    \* arms 1, 2: vec![ elems ]
  ELSE LET h == Head(rest)  r == Tail(rest) IN
       CASE h.k = "null" ->                                            \* arm 3 "Next value is `null`"
              IF "NullTruncatesArray" \in D THEN MOk(JArr(Append(el, JNull)))      \* $rest is not passed on
              ELSE ArrM(Append(el, JNull), r, D)
         [] h.k \in {"brack", "brace"} ->                              \* arms 4, 5: nested json!
              LET x == JsonM(<<h>>, D) IN IF x.ok THEN ArrM(Append(el, x.j), r, D) ELSE MErr
         [] h.k = "expr" ->
              IF r = <<>> THEN                                         \* arm 7 "Last value is an expression"
                   (IF "DropLastElem" \in D THEN MOk(JArr(el)) ELSE MOk(JArr(Append(el, h.j))))
              ELSE IF Head(r).k = "comma" THEN ArrM(Append(el, h.j), Tail(r), D)   \* arm 6 `$value:expr ,`
              ELSE MErr
         [] h.k = "comma" -> ArrM(el, r, D)                            \* arm 8 "Comma"
         [] OTHER -> MErr

\* macro_rules! json_object_internal: ([ accumulated ] rest...), each member is `$key:tt : value`
ObjM(ks, el, rest, D) ==
  IF rest = <<>> THEN MOk(JObj(ks, el))
  ELSE IF Len(rest) >= 3 /\ rest[1].k = "expr" /\ rest[2].k = "colon" THEN
       LET key == rest[1].j.s                                          \* $key.to_string()
           h   == rest[3]
           r   == SubSeq(rest, 4, Len(rest)) IN
       CASE h.k = "null" ->
              IF "ObjNullDropsRest" \in D THEN MOk(JObj(Append(ks, key), Append(el, JNull)))
              ELSE ObjM(Append(ks, key), Append(el, JNull), r, D)
         [] h.k \in {"brack", "brace"} ->
              LET x == JsonM(<<h>>, D) IN IF x.ok THEN ObjM(Append(ks, key), Append(el, x.j), r, D) ELSE MErr
         [] h.k = "expr" ->
              IF r = <<>> THEN MOk(JObj(Append(ks, key), Append(el, h.j)))
              ELSE IF Head(r).k = "comma" THEN ObjM(Append(ks, key), Append(el, h.j), Tail(r), D)
              ELSE MErr
         [] OTHER -> MErr
  ELSE IF Head(rest).k = "comma" THEN ObjM(ks, el, Tail(rest), D)
  ELSE MErr

MacroOf(n, D) == JsonM(Toks(n), D)
MacroCorrect(n) == LET r == MacroOf(n, Dev) IN r.ok /\ r.j = DenoteLit(n)
\* a trailing comma means nothing (stated separately: it is the part of the literal language JSON lacks)
RECURSIVE NoTc(_)
NoTc(n) == [n EXCEPT !.tc = FALSE, !.items = [i \in 1..Len(n.items) |-> NoTc(n.items[i])]]
TrailingCommaNeutral(n) == LET a == MacroOf(n, Dev)  b == MacroOf(NoTc(n), Dev) IN a.ok /\ b.ok /\ a.j = b.j

(***************************************************************************)
(* (2) to_json / from_json as generated                                    *)
(***************************************************************************)
RECURSIVE ToJI(_, _, _, _), ToJD(_, _, _, _)
ToJI(v, ty, P, D) ==
  IF ty.w # <<>> THEN
     IF Head(ty.w) = "Opt" THEN (IF v.t = "none" THEN JNull ELSE ToJI(v.c[1], Inner(ty), P, D))   \* impl IntoJson for Option<T>
     ELSE LET keep == IF "VecNoneDropped" \in D THEN SelectSeq(v.c, LAMBDA x : x.t # "none") ELSE v.c IN
          JArr([i \in 1..Len(keep) |-> ToJI(keep[i], Inner(ty), P, D)])                          \* impl IntoJson for Vec<T>
  ELSE CASE ty.base = "Bool" -> JBool(v.s)
         [] ty.base = "Int"  -> JNum(v.s, IF "IntBeyond2p53" \in D THEN RoundF64(v.b) ELSE v.b, "")   \* Value::Number(self as f64)
         [] ty.base \in {"F64", "F32"} -> JNum(v.s, v.b, v.f)
         [] ty.base = "Str"  -> JStr(v.s)
         [] ty.base = "Ref"  -> ToJD(v, Lookup(P, ty.a), P, D)

\* the member list handed to json!({ ... }) by the expansion; value expressions are parenthesised single token trees
RECURSIVE MemberToks(_, _, _, _, _)
MemberToks(v, d, P, D, i) ==
  IF i > Len(d.fields) THEN <<>>
  ELSE LET fl  == d.fields[i]
           key == IF d.via = "derive" /\ ("KeyIgnoresRename" \in D \/ ("RenameMustBeFirst" \in D /\ fl.doc \in {"doc", "allow"}))
                  THEN fl.id ELSE Key(fl)
           val == ToJI(v.c[i], fl.ty, P, D)
           omit == "NoneOmitted" \in D /\ fl.ty.w # <<>> /\ Head(fl.ty.w) = "Opt" /\ v.c[i].t = "none"
       IN (IF omit THEN <<>>
           ELSE <<TExpr("key", JStr(key)), TColon, TExpr("(value)", val)>>
                \o (IF d.via = "derive" \/ i < Len(d.fields) THEN <<TComma>> ELSE <<>>))  \* derive: `#names: (..),` each; json_map!: `,` separated
          \o MemberToks(v, d, P, D, i + 1)

ToJD(v, d, P, D) ==
  CASE d.kind = "named" -> LET r == JsonM(<<TBrace(MemberToks(v, d, P, D, 1))>>, D) IN
                           IF r.ok THEN r.j ELSE JStr("<<compile error>>")
    [] d.kind = "tuple" -> IF "TupleAsObject" \in D
                           THEN JObj([i \in 1..Len(d.fields) |-> ToString(i - 1)], [i \in 1..Len(d.fields) |-> ToJI(v.c[i], d.fields[i].ty, P, D)])
                           ELSE JArr([i \in 1..Len(d.fields) |-> ToJI(v.c[i], d.fields[i].ty, P, D)])   \* Value::Array(vec![..])
    [] d.kind = "enum"  -> LET r == JsonM(<<TExpr("name", JStr(Key(d.fields[CHOOSE i \in 1..Len(d.fields) : d.fields[i].id = v.s])))>>, D)
                           IN r.j                                                                    \* Self::X => json!("name")

\* Does the program compile?  named_struct.rs / enum_type.rs: `if attrs.is_empty() { ident } else { attrs.find(rename)
\* .expect("Unknown attribute") }` - under DocAttrPanics an attribute that is not `rename` on an un-renamed field panics
\* the derive macro.  tuple_struct.rs does not look at attributes; json_map! is applied to a plain struct.
DeriveCompiles(d, D) ==
  ~ /\ "DocAttrPanics" \in D
    /\ d.via = "derive" /\ d.kind \in {"named", "enum"}
    /\ \E i \in 1..Len(d.fields) : d.fields[i].doc # "" /\ ~d.fields[i].hasRen
ProgCompiles(P, D) == \A i \in 1..Len(P) : DeriveCompiles(P[i], D)

ROk(v) == [ok |-> TRUE, v |-> v]
RErr   == [ok |-> FALSE, v |-> VNone]            \* Err(ParseError::TypeError)

\* `*n as Self`: truncation towards zero, saturation at the bounds of the integer kind
CastInt(j, kind) ==
  IF j.s = "-" THEN (IF ~Signed(kind) THEN VInt("", <<>>)
                     ELSE IF Less(MinMag(kind), j.b) THEN VInt("-", MinMag(kind)) ELSE VInt("-", j.b))
  ELSE IF Less(MaxMag(kind), j.b) THEN VInt("", MaxMag(kind)) ELSE VInt("", j.b)

RECURSIVE FromJI(_, _, _), FromJD(_, _, _)
FromJI(j, ty, P) ==
  IF ty.w # <<>> THEN
     IF Head(ty.w) = "Opt" THEN
          IF "OptInnerFirst" \in Dev            \* deviation: T::from_json sees the value first, null only as a fallback
          THEN LET r == FromJI(j, Inner(ty), P) IN
               IF r.ok THEN ROk(VSome(r.v)) ELSE IF j.t = "null" THEN ROk(VNone) ELSE RErr
          ELSE
          IF j.t = "null" THEN ROk(VNone)
          ELSE LET r == FromJI(j, Inner(ty), P) IN IF r.ok THEN ROk(VSome(r.v)) ELSE RErr
     ELSE IF j.t # "arr" THEN RErr
          ELSE LET rs == [i \in 1..Len(j.c) |-> FromJI(j.c[i], Inner(ty), P)] IN
               IF \A i \in 1..Len(rs) : rs[i].ok THEN ROk(VVec([i \in 1..Len(rs) |-> rs[i].v])) ELSE RErr
  ELSE CASE ty.base = "Bool" -> IF j.t = "bool" THEN ROk(VBool(j.s)) ELSE RErr
         [] ty.base = "Int"  -> IF j.t = "num" THEN ROk(CastInt(j, ty.a)) ELSE RErr
         [] ty.base \in {"F64", "F32"} -> IF j.t = "num" THEN ROk(VF64(j.s, j.b, j.f)) ELSE RErr   \* f32: exact for the catalogue values
         [] ty.base = "Str"  -> IF j.t = "str" THEN ROk(VStr(j.s)) ELSE RErr
         [] ty.base = "Ref"  -> FromJD(j, Lookup(P, ty.a), P)
FromJD(j, d, P) ==
  CASE d.kind = "named" ->            \* field: from_json(value.get(key).unwrap_or(&Null))?
         LET rs == [i \in 1..Len(d.fields) |-> FromJI(Member(j, Key(d.fields[i])), d.fields[i].ty, P)] IN
         IF \A i \in 1..Len(rs) : rs[i].ok THEN ROk(VStruct([i \in 1..Len(rs) |-> rs[i].v])) ELSE RErr
    [] d.kind = "tuple" ->            \* value.as_array().map(len).unwrap_or(0) != field_count => Err
         IF j.t # "arr" \/ Len(j.c) # Len(d.fields) THEN RErr
         ELSE LET rs == [i \in 1..Len(d.fields) |-> FromJI(j.c[i], d.fields[i].ty, P)] IN
              IF \A i \in 1..Len(rs) : rs[i].ok THEN ROk(VStruct([i \in 1..Len(rs) |-> rs[i].v])) ELSE RErr
    [] d.kind = "enum" ->             \* match value.as_str() { names.. => Ok(Self::ident), _ => Err }: first arm wins
         IF j.t = "str" /\ \E i \in 1..Len(d.fields) : Key(d.fields[i]) = j.s
         THEN ROk(VEnum(d.fields[CHOOSE i \in 1..Len(d.fields) : Key(d.fields[i]) = j.s /\ \A h \in 1..(i - 1) : Key(d.fields[h]) # j.s].id))
         ELSE RErr

(***************************************************************************)
(* The theorems, for one value v of declaration d in program P             *)
(***************************************************************************)
ShapeOkV(v, d, P, D)      == ToJD(v, d, P, D) = ShapeD(v, d, P)
RoundTripV(v, d, P, D)    == FromJD(ToJD(v, d, P, D), d, P) = ROk(v)
\* reading the documented text back; the text is parsed by the implementation (numbers per AsF64).
DocReadsBackV(v, d, P, D) == FromJD(AsF64(ShapeD(v, d, P), D), d, P) = ROk(v)
\* Value::parse(documented text) = to_json(v)
DocParsesToV(v, d, P, D)  == AsF64(ShapeD(v, d, P), D) = ToJD(v, d, P, D)

\* what an observer of the implementation sees for v under deviations D (all TRUE and obs = Shape when D = {})
Observe(v, d, P, D) == [c   |-> ProgCompiles(P, D),            \* the program compiles
                        obs |-> Canon(ToJD(v, d, P, D)),
                        rt  |-> RoundTripV(v, d, P, D),       \* T::from_json(&v.to_json()) == Ok(v); also through text
                        pe  |-> DocParsesToV(v, d, P, D),     \* Value::parse(doc text) == v.to_json()
                        fe  |-> DocReadsBackV(v, d, P, D)]    \* from_str::<T>(doc text) == Ok(v)
ObserveLit(n, D) == LET r == MacroOf(n, D) IN
                    [ok |-> r.ok, obs |-> Canon(r.j), eq |-> r.ok /\ r.j = DenoteLit(n)]   \* json!(n) == Value::parse(text)

(***************************************************************************)
(* Value catalogues (sequences, boundary cases first)                      *)
(***************************************************************************)
StrCat == << "", "plain", "q\"uote \\ back", "né € 😀", "a/b\tc\nd", "{\"k\": [1, null]}" >>
F64Cat == << VF64("", <<>>, ""), VF64("", <<>>, "5"), VF64("-", <<1>>, "25"), VF64("-", <<1, 1, 1>>, ""),
             VF64("", <<1,1,1,1,0,0,0,1,0,0,1,0,0,0,0,0,0>>, "789"), VF64("", <<>>, "1"),     \* 0, 0.5, -1.25, -7, 123456.789, 0.1
             VF64("", Pow2(53), ""), VF64("-", Pred(Pow2(53)), ""), VF64("", Pow2(32), "5") >>  \* 2^53, -(2^53-1), 2^32+0.5
\* f32 values that are exact in binary32 and have a short decimal (so that "the documented number" is unambiguous)
F32Cat == << VF64("", <<>>, ""), VF64("", <<>>, "5"), VF64("-", <<1>>, "25"), VF64("", Pow2(24), ""),
             VF64("", Pred(Pow2(24)), ""), VF64("-", <<1, 1, 1>>, ""), VF64("", <<>>, "375") >>
\* Integers.  Core catalogue: MAX, MIN, MIN+1, MAX-1, 0, -1, 1 and the f64 mantissa limit 2^53, 2^53+1, -(2^53+1).
\* Full catalogue (IntFull): in addition 2^e-1, 2^e, 2^e+1 and, for signed kinds, -(2^e), -(2^e+1) for
\* e in 8, 16, 24, 31, 32, 63, 64 - every one that lies in the range of the kind.
FitsPos(kind, m) == ~Less(MaxMag(kind), m)
FitsNeg(kind, m) == Signed(kind) /\ ~Less(MinMag(kind), m)
PowExps == <<8, 16, 24, 31, 32, 63, 64>>
PowVals(kind) ==
  LET pos == [i \in 1..(3 * Len(PowExps)) |->
                LET p == Pow2(PowExps[((i - 1) \div 3) + 1]) IN
                CASE (i - 1) % 3 = 0 -> Pred(p) [] (i - 1) % 3 = 1 -> p [] OTHER -> Inc(p)]
      neg == [i \in 1..(2 * Len(PowExps)) |->
                LET p == Pow2(PowExps[((i - 1) \div 2) + 1]) IN IF (i - 1) % 2 = 0 THEN p ELSE Inc(p)]
      ps == SelectSeq(pos, LAMBDA m : FitsPos(kind, m))
      ns == SelectSeq(neg, LAMBDA m : FitsNeg(kind, m))
  IN [i \in 1..Len(ps) |-> VInt("", ps[i])] \o [i \in 1..Len(ns) |-> VInt("-", ns[i])]
IntVals(kind) ==
  LET n == IntBits(kind)  mx == MaxMag(kind)  p53 == Pow2(53) IN
  <<VInt("", mx)>>
  \o (IF Signed(kind) THEN <<VInt("-", MinMag(kind))>> ELSE <<VInt("", <<>>)>>)
  \o (IF n > 54 THEN <<VInt("", Inc(p53))>> ELSE <<>>)
  \o (IF Signed(kind) THEN <<VInt("", <<>>), VInt("-", <<1>>)>> ELSE <<>>)
  \o <<VInt("", <<1>>), VInt("", Pred(mx))>>
  \o (IF Signed(kind) THEN <<VInt("-", Pred(MinMag(kind)))>> ELSE <<>>)                      \* MIN + 1
  \o (IF n > 54 THEN <<VInt("", p53)>> \o (IF Signed(kind) THEN <<VInt("-", Inc(p53))>> ELSE <<>>) ELSE <<>>)
  \o (IF IntFull THEN PowVals(kind) ELSE <<>>)

RECURSIVE Vals(_, _), DeclVals(_, _)
Vals(ty, P) ==
  IF ty.w # <<>> THEN
     LET in == Vals(Inner(ty), P) IN
     IF Head(ty.w) = "Opt" THEN <<VNone>> \o [i \in 1..Len(in) |-> VSome(in[i])]
     ELSE \* empty; everything when the catalogue is small; then windows of three consecutive catalogue values
          \* (cyclic) starting at every other position and at the last two: every value occurs in a Vec, and the
          \* first value (None for Option) occurs first, in the middle and last
          LET L == Len(in)
              Win(k) == VVec(<<in[k], in[(k % L) + 1], in[((k + 1) % L) + 1]>>)
              starts == SelectSeq([k \in 1..L |-> k], LAMBDA k : k % 2 = 1 \/ k >= L - 1) IN
          <<VVec(<<>>)>> \o (IF L <= 6 THEN <<VVec(in)>> ELSE <<>>) \o <<VVec(<<in[1]>>)>>
          \o (IF L >= 3 THEN [i \in 1..Len(starts) |-> Win(starts[i])] ELSE IF L = 2 THEN <<VVec(<<in[2], in[1], in[2]>>)>> ELSE <<>>)
  ELSE CASE ty.base = "Bool" -> <<VBool("false"), VBool("true")>>
         [] ty.base = "Int"  -> IntVals(ty.a)
         [] ty.base = "F64"  -> F64Cat
         [] ty.base = "F32"  -> F32Cat
         [] ty.base = "Str"  -> [i \in 1..Len(StrCat) |-> VStr(StrCat[i])]
         [] ty.base = "Ref"  -> DeclVals(Lookup(P, ty.a), P)
\* values of a declared type: every variant; for structs the "diagonals" of the field catalogues
MaxLen(ss) == CHOOSE m \in {Len(ss[i]) : i \in 1..Len(ss)} : \A i \in 1..Len(ss) : Len(ss[i]) <= m
DeclVals(d, P) ==
  IF d.kind = "enum" THEN [i \in 1..Len(d.fields) |-> VEnum(d.fields[i].id)]
  ELSE LET fv == [i \in 1..Len(d.fields) |-> Vals(d.fields[i].ty, P)] IN
       [q \in 1..MaxLen(fv) |-> VStruct([i \in 1..Len(fv) |-> fv[i][((q + i - 2) % Len(fv[i])) + 1]])]
\* every combination of the field catalogues (used by the exhaustive configurations)
RECURSIVE ProdSeq(_)
ProdSeq(fv) == IF fv = <<>> THEN {<<>>} ELSE { <<x>> \o r : x \in Range(Head(fv)), r \in ProdSeq(Tail(fv)) }
AllVals(d, P) ==
  IF d.kind = "enum" THEN Range(DeclVals(d, P))
  ELSE { VStruct(c) : c \in ProdSeq([i \in 1..Len(d.fields) |-> Vals(d.fields[i].ty, P)]) }

(***************************************************************************)
(* A library of declarations that generated declarations may refer to      *)
(***************************************************************************)
\* rename strings: ordinary, JSON-special, then one representative per Unicode class at the start / the end / both ends
\* (white space ASCII and non-ASCII, C1 control, DEL, line separator), escapes, lone delimiters, only blanks,
\* case mappings that change length, combining mark, private use, non-ASCII digits and numerics, non-BMP
RenCat == << "a b", "with \"quotes\"", "back\\slash", "naïve é", "日本", "{", "k:v", "", "a", "[1, null]",
             " lead", "trail ", " both ", "\ttab\n", " nb ", "c1", " ls", "　ideo　", " og",
             "ß", "İ", "ﬁ", "é", "", "٣", "１", "²½Ⅷ", "", "'", "=", ",", ":", "  ", "\"", "\\", "𝟙",
             "A", "Value", "VALUE", "value " >>
Lib == <<
  Decl("E", "enum", "derive", <<Field("A", FALSE, "", "", UnitTy), Field("Bee", TRUE, "b é", "doc", UnitTy), Field("C3", FALSE, "", "allow", UnitTy)>>),
  Decl("P", "tuple", "derive", <<Field("0", FALSE, "", "", Ty("Int", "i8", <<>>)), Field("1", FALSE, "", "doc", Ty("Str", "", <<>>))>>),
  Decl("N", "named", "derive", <<Field("x", FALSE, "", "doc", Ty("Int", "u64", <<"Opt">>)),
                                 Field("y", TRUE, "the \"y\"", "after", Ty("Ref", "E", <<"Vec">>))>>),
  Decl("M", "named", "map",    <<Field("p", TRUE, "p p", "doc", Ty("Ref", "P", <<>>)),
                                 Field("e", TRUE, "e", "", Ty("Ref", "E", <<"Opt">>))>>),
  \* every member optional: the generated from_json reads a missing key as null, so this type also reads `null`
  \* (as the value with every member None) - Option<O> must still see the null first
  Decl("O", "named", "derive", <<Field("o", FALSE, "", "", Ty("Int", "i8", <<"Opt">>)),
                                 Field("q", TRUE, "q q", "", Ty("Str", "", <<"Opt">>))>>)
>>
Refs(d) == { d.fields[i].ty.a : i \in { h \in 1..Len(d.fields) : d.fields[h].ty.base = "Ref" } }
LibRefs(names) == names \cup UNION { Refs(Lookup(Lib, nm)) : nm \in names }
Reach(d) == LibRefs(LibRefs(Refs(d)))
\* the program a generated declaration lives in: the library declarations it needs, then itself
Prog(d) == SelectSeq(Lib, LAMBDA L : L.name \in Reach(d)) \o <<d>>

(***************************************************************************)
(* Enumerators (state machines so that TLC can walk large input spaces)    *)
(***************************************************************************)
VARIABLES mode,      \* "decl" | "lit"
          cur,       \* declaration under construction (every state with >= 1 field is a complete declaration)
          first,     \* rotating family: catalogue index of the first field's type
          stk,       \* literal under construction: open containers, innermost last
          lit,       \* completed literal or NoLit
          nn         \* nodes used by the literal
vars == <<mode, cur, first, stk, lit, nn>>

FieldIds == <<"a", "value", "b2", "string", "e", "f", "g", "h">>
VarIds   == <<"A", "Bee", "C3", "Value", "E", "F", "G", "H">>
NB == Len(BaseSeq)
NW == Len(WrapSeq)
\* catalogue of field types, a bijection 1..NB*NW -> base x wrapper in which neighbours differ in both
FT(i) == LET x == (i - 1) % NB  c == (i - 1) \div NB IN Ty(BaseSeq[x + 1].base, BaseSeq[x + 1].a, WrapSeq[((c + x) % NW) + 1])
NFT == NB * NW

Init == /\ mode \in Modes
        /\ cur = NoDecl /\ first = 0 /\ stk = <<>> /\ lit = NoLit /\ nn = 0

DeclStart(kind, via) ==
  /\ mode = "decl" /\ cur.kind = "none"
  /\ cur' = Decl("T", kind, via, <<>>)
  /\ UNCHANGED <<mode, first, stk, lit, nn>>

CanAdd(fl) == "AllowDupKeys" \in Dev \/ \A i \in 1..Len(cur.fields) : Key(cur.fields[i]) # Key(fl)

\* Family "all": any type, any rename.  Family "rot": field i takes the catalogue type after field i-1's and a
\* rename pattern fixed by its position, so that one declaration per (kind, via, size, first type) is produced.
DeclAddField ==
  /\ mode = "decl" /\ cur.kind \in {"named", "tuple"} /\ Len(cur.fields) < MaxFields
  /\ LET i == Len(cur.fields) + 1 IN
     \E ti \in 1..NFT : \E hr \in BOOLEAN : \E rn \in 1..Len(RenSeq) : \E dc \in DocSet :
       /\ cur.kind = "tuple" => ~hr                   \* no renames on tuple fields
       /\ cur.via = "map" => hr                       \* json_map! always names the key
       /\ ~hr => rn = 1
       /\ Family = "rot" =>
            /\ i > 1 => ti = ((first + i - 2) % NFT) + 1
            /\ (cur.kind = "named" /\ cur.via = "derive") => (hr <=> ((ti + i) % 3 # 0))
            /\ hr => rn = ((ti + i) % Len(RenSeq)) + 1
            /\ dc = (CASE (ti + 2 * i) % 8 = 0 -> "doc" [] (ti + 2 * i) % 8 = 3 -> "allow" [] (ti + 2 * i) % 8 = 6 -> "after" [] OTHER -> "")
       /\ LET id == IF cur.kind = "tuple" THEN ToString(i - 1) ELSE FieldIds[i]
              \* rotating family: every third json_map! key is the identifier itself
              ren == IF cur.via = "map" /\ Family = "rot" /\ (ti + i) % 3 = 0 THEN id ELSE RenSeq[rn]
              fl == Field(id, hr, IF hr THEN ren ELSE "", dc, FT(ti)) IN
          /\ CanAdd(fl)
          /\ cur' = [cur EXCEPT !.fields = Append(@, fl)]
          /\ first' = IF i = 1 THEN ti ELSE first
  /\ UNCHANGED <<mode, stk, lit, nn>>

\* enums; rotating family: the first variant is free (no rename or any rename), later ones alternate
\* renamed / not renamed with the renames that follow the first one in the catalogue
DeclAddVariant ==
  /\ mode = "decl" /\ cur.kind = "enum" /\ Len(cur.fields) < MaxFields
  /\ LET i == Len(cur.fields) + 1 IN
     \E hr \in BOOLEAN : \E rn \in 1..Len(RenSeq) : \E dc \in DocSet :
       /\ ~hr => rn = 1
       /\ Family = "rot" => dc = (CASE (first + i) % 6 = 0 -> "doc" [] (first + i) % 6 = 2 -> "allow" [] (first + i) % 6 = 4 -> "after" [] OTHER -> "")
       /\ (Family = "rot" /\ i > 1) =>
            /\ hr <=> (IF first = 0 THEN i % 2 = 0 ELSE i % 2 = 1)
            /\ hr => rn = ((first + i - 2) % Len(RenSeq)) + 1
       /\ LET fl == Field(VarIds[i], hr, IF hr THEN RenSeq[rn] ELSE "", dc, UnitTy) IN
          /\ CanAdd(fl)
          /\ cur' = [cur EXCEPT !.fields = Append(@, fl)]
          /\ first' = IF i = 1 THEN (IF hr THEN rn ELSE 0) ELSE first
  /\ UNCHANGED <<mode, stk, lit, nn>>

Frame(k) == Lit(k, 0, FALSE, <<>>, <<>>)
Room == IF stk = <<>> THEN TRUE ELSE Len(Last(stk).items) < MaxItems
\* member names rotate through the whole key catalogue with the node counter (distinct within one literal of the bound)
AddItem(fr, n) == [fr EXCEPT !.items = Append(@, n), !.ks = IF fr.k = "obj" THEN Append(@, (nn % Len(KeyCat)) + 1) ELSE @]
Put(n) ==   \* a finished node goes into the innermost open container, or is the whole literal
  IF stk = <<>> THEN /\ lit' = n /\ stk' = stk
  ELSE /\ lit' = lit
       /\ stk' = [stk EXCEPT ![Len(stk)] = AddItem(@, n)]

LitLeaf ==
  /\ mode = "lit" /\ lit = NoLit /\ Room /\ nn < MaxNodes
  /\ \E n \in {LitNull} \cup {LitExpr(e) : e \in Leaves} \cup (IF stk = <<>> THEN {LitEmpty} ELSE {}) : Put(n)
  /\ nn' = nn + 1
  /\ UNCHANGED <<mode, cur, first>>

LitOpen ==
  /\ mode = "lit" /\ lit = NoLit /\ Room /\ nn < MaxNodes /\ Len(stk) < MaxDepth
  /\ \E k \in {"arr", "obj"} : stk' = Append(stk, Frame(k))
  /\ nn' = nn + 1
  /\ UNCHANGED <<mode, cur, first, lit>>

LitClose ==
  /\ mode = "lit" /\ lit = NoLit /\ stk # <<>>
  /\ \E tc \in BOOLEAN :
       /\ tc => Last(stk).items # <<>>
       /\ LET n == [Last(stk) EXCEPT !.tc = tc] IN
          IF Len(stk) = 1 THEN /\ lit' = n /\ stk' = <<>>
          ELSE /\ lit' = lit
               /\ stk' = [Front(stk) EXCEPT ![Len(stk) - 1] = AddItem(@, n)]
  /\ UNCHANGED <<mode, cur, first, nn>>

Next == \/ \E kv \in {<<"named", "derive">>, <<"named", "map">>, <<"tuple", "derive">>, <<"enum", "derive">>} : DeclStart(kv[1], kv[2])
        \/ DeclAddField \/ DeclAddVariant
        \/ LitLeaf \/ LitOpen \/ LitClose
Spec == Init /\ [][Next]_vars

(***************************************************************************)
(* The theorems as invariants over the enumerated space                    *)
(***************************************************************************)
HasDecl == mode = "decl" /\ cur.fields # <<>>
HasLit  == mode = "lit" /\ lit # NoLit
ShapeOk      == HasDecl => \A v \in AllVals(cur, Prog(cur)) : ShapeOkV(v, cur, Prog(cur), Dev)
RoundTrip    == HasDecl => \A v \in AllVals(cur, Prog(cur)) : RoundTripV(v, cur, Prog(cur), Dev)
DocReadsBack == HasDecl => \A v \in AllVals(cur, Prog(cur)) : DocReadsBackV(v, cur, Prog(cur), Dev)
\* the three together, evaluating to_json once per value (used by the large configurations)
Compiles     == HasDecl => ProgCompiles(Prog(cur), Dev)
Theorems     == HasDecl => LET P == Prog(cur) IN
                           /\ ProgCompiles(P, Dev)
                           /\ \A v \in AllVals(cur, P) :
                              LET j == ToJD(v, cur, P, Dev)  sh == ShapeD(v, cur, P) IN
                              /\ j = sh
                              /\ FromJD(j, cur, P) = ROk(v)
                              /\ FromJD(AsF64(sh, Dev), cur, P) = ROk(v)
\* the same over the diagonal values only (configurations with many fields)
TheoremsDiag == HasDecl => LET P == Prog(cur) IN
                           /\ ProgCompiles(P, Dev)
                           /\ \A v \in Range(DeclVals(cur, P)) :
                                 /\ ShapeOkV(v, cur, P, Dev) /\ RoundTripV(v, cur, P, Dev) /\ DocReadsBackV(v, cur, P, Dev)
LibSound     == \A i \in 1..Len(Lib) : /\ WellFormed(Lib[i])
                                       /\ \A v \in Range(DeclVals(Lib[i], Lib)) :
                                             ShapeOkV(v, Lib[i], Lib, Dev) /\ RoundTripV(v, Lib[i], Lib, Dev)
MacroOk      == HasLit => MacroCorrect(lit) /\ TrailingCommaNeutral(lit)
LitBounded   == HasLit => LitDepth(lit) <= MaxDepth /\ LitNodes(lit) = nn /\ nn <= MaxNodes
=============================================================================
