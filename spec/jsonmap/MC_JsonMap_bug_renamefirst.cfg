\* sensitivity: a derive that honours #[rename] only as the first attribute must violate ShapeOk (doc comment before rename)
CONSTANTS
  Dev = {"RenameMustBeFirst"}
  Modes = {"decl"}
  BaseSeq <- BasesTiny
  WrapSeq <- WrapsTiny
  RenSeq <- RensMC
  DocSet <- DocAll
  IntFull = FALSE
  Family = "all"
  MaxFields = 1
  MaxDepth = 3
  MaxItems = 3
  MaxNodes = 6
  Leaves = {1, 2}
  GenSizes <- SizesNone
  NVals = 0
SPECIFICATION Spec
INVARIANTS ShapeOk
CHECK_DEADLOCK FALSE
