\* generation: every integer kind at every value of the FULL catalogue (MIN, MIN+1, MAX-1, MAX, 0, +-1, 2^e-1, 2^e, 2^e+1 ...) as a plain field,
\* in Option, in Vec and in Vec<Option>, in named (derive, json_map!) and tuple structs
CONSTANTS
  Dev = {}
  Modes = {"decl"}
  BaseSeq <- BasesInts
  WrapSeq <- WrapsInts
  RenSeq <- RenCat
  DocSet <- DocAll
  IntFull = TRUE
  Family = "rot"
  MaxFields = 4
  MaxDepth = 3
  MaxItems = 3
  MaxNodes = 6
  Leaves = {1, 2}
  GenSizes <- SizesInts
  NVals = 99
SPECIFICATION Spec
INVARIANTS GenDeclInv
CHECK_DEADLOCK FALSE
