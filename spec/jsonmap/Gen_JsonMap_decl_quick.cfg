\* generation, quick: the rotating family over all 19 bases x 6 wrappers
CONSTANTS
  Dev = {}
  Modes = {"decl"}
  BaseSeq <- BasesAll
  WrapSeq <- WrapsAll
  RenSeq <- RenCat
  DocSet <- DocAll
  IntFull = FALSE
  Family = "rot"
  MaxFields = 4
  MaxDepth = 3
  MaxItems = 3
  MaxNodes = 6
  Leaves = {1, 2}
  GenSizes <- SizesQuick
  NVals = 3
SPECIFICATION Spec
INVARIANTS GenDeclInv
CHECK_DEADLOCK FALSE
