\* exhaustive, quick: every one-field declaration over all 17 base types x 6 wrapper stacks x {none, 3 renames} x mapping route, all catalogue values;
\* every json! literal with <= 5 nodes, nesting <= 3, <= 3 items per container, leaves {null, 1, "s"}
CONSTANTS
  Dev = {}
  Modes = {"decl", "lit"}
  BaseSeq <- BasesAll
  WrapSeq <- WrapsAll
  RenSeq <- RensMC
  DocSet <- DocAll
  IntFull = TRUE
  Family = "all"
  MaxFields = 1
  MaxDepth = 3
  MaxItems = 3
  MaxNodes = 5
  Leaves = {1, 2}
  GenSizes <- SizesNone
  NVals = 0
SPECIFICATION Spec
INVARIANTS Theorems MacroOk LitBounded
CHECK_DEADLOCK FALSE
