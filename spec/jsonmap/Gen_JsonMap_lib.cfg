\* generation: the library declarations and the catalogues
CONSTANTS
  Dev = {}
  Modes = {"lit"}
  BaseSeq <- NoBases
  WrapSeq <- WrapsAll
  RenSeq <- RensMC
  DocSet <- DocAll
  IntFull = FALSE
  Family = "all"
  MaxFields = 1
  MaxDepth = 3
  MaxItems = 3
  MaxNodes = 0
  Leaves = {1, 2}
  GenSizes <- SizesNone
  NVals = 9
INIT GenLibInit
NEXT Next
INVARIANTS LitBounded
CHECK_DEADLOCK FALSE
