\* generation, quick: literals with <= 4 nodes, nesting <= 3, leaves {null, 1, none_i32}
CONSTANTS
  Dev = {}
  Modes = {"lit"}
  BaseSeq <- BasesQuick
  WrapSeq <- WrapsAll
  RenSeq <- RensMC
  DocSet <- DocAll
  IntFull = FALSE
  Family = "all"
  MaxFields = 2
  MaxDepth = 3
  MaxItems = 3
  MaxNodes = 4
  Leaves = {1, 7}
  GenSizes <- SizesNone
  NVals = 0
SPECIFICATION Spec
INVARIANTS GenLitInv
CHECK_DEADLOCK FALSE
