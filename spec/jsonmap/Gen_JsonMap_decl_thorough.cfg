\* generation, thorough
CONSTANTS
  Dev = {}
  Modes = {"decl"}
  BaseSeq <- BasesAll
  WrapSeq <- WrapsAll
  RenSeq <- RenCat
  DocSet <- DocAll
  IntFull = FALSE
  Family = "rot"
  MaxFields = 6
  MaxDepth = 3
  MaxItems = 3
  MaxNodes = 6
  Leaves = {1, 2}
  GenSizes <- SizesThorough
  NVals = 9
SPECIFICATION Spec
INVARIANTS GenDeclInv
CHECK_DEADLOCK FALSE
