\* exhaustive, thorough: every declaration with <= 2 fields over 8 base types x 6 wrapper stacks x {none, 3 renames} x route, every combination of values;
\* every json! literal with <= 6 nodes (any nesting), <= 3 items per container, leaves {null, 1, "s"}
CONSTANTS
  Dev = {}
  Modes = {"decl", "lit"}
  BaseSeq <- BasesQuick
  WrapSeq <- WrapsAll
  RenSeq <- RensMC
  DocSet = {""}
  IntFull = FALSE
  Family = "all"
  MaxFields = 2
  MaxDepth = 6
  MaxItems = 3
  MaxNodes = 6
  Leaves = {1, 2}
  GenSizes <- SizesNone
  NVals = 0
SPECIFICATION Spec
INVARIANTS Theorems MacroOk LitBounded
CHECK_DEADLOCK FALSE
