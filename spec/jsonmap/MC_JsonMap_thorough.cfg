\* exhaustive, thorough: every declaration with <= 2 fields over 8 base types x 6 wrapper stacks x renames; every literal with <= 6 nodes, nesting <= 4
CONSTANTS
  Dev = {}
  Modes = {"decl", "lit"}
  BaseSeq <- BasesQuick
  WrapSeq <- WrapsAll
  RenSeq <- RensMC
  DocSet = {FALSE}
  Family = "all"
  MaxFields = 2
  MaxDepth = 4
  MaxItems = 3
  MaxNodes = 6
  Leaves = {1, 2}
  GenSizes <- SizesNone
  NVals = 0
SPECIFICATION Spec
INVARIANTS Theorems MacroOk LitBounded
CHECK_DEADLOCK FALSE
