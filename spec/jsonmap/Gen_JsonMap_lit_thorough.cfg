\* generation, thorough: literals with <= 5 nodes, nesting <= 4
CONSTANTS
  Dev = {}
  Modes = {"lit"}
  BaseSeq <- BasesQuick
  WrapSeq <- WrapsAll
  RenSeq <- RensMC
  DocSet <- DocBoth
  Family = "all"
  MaxFields = 2
  MaxDepth = 4
  MaxItems = 3
  MaxNodes = 5
  Leaves = {1, 2, 7}
  GenSizes <- SizesNone
  NVals = 0
SPECIFICATION Spec
INVARIANTS GenLitInv
CHECK_DEADLOCK FALSE
