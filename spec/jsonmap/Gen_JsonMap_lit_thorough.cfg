\* generation, thorough: every literal with <= 5 nodes (any nesting), leaves {null, 1, "s"}
CONSTANTS
  Dev = {}
  Modes = {"lit"}
  BaseSeq <- BasesQuick
  WrapSeq <- WrapsAll
  RenSeq <- RensMC
  DocSet <- DocAll
  IntFull = FALSE
  Family = "all"
  MaxFields = 2
  MaxDepth = 5
  MaxItems = 3
  MaxNodes = 5
  Leaves = {1, 2}
  GenSizes <- SizesNone
  NVals = 0
SPECIFICATION Spec
INVARIANTS GenLitInv
CHECK_DEADLOCK FALSE
