\* sensitivity: derive's to_json keyed by identifier although renamed must violate RoundTrip
CONSTANTS
  Dev = {"KeyIgnoresRename"}
  Modes = {"decl"}
  BaseSeq <- BasesTiny
  WrapSeq <- WrapsTiny
  RenSeq <- RensMC
  DocSet = {""}
  IntFull = FALSE
  Family = "all"
  MaxFields = 1
  MaxDepth = 3
  MaxItems = 3
  MaxNodes = 6
  Leaves = {1, 2}
  GenSizes <- SizesNone
  NVals = 0
SPECIFICATION Spec
INVARIANTS RoundTrip
CHECK_DEADLOCK FALSE
