\* sensitivity: Dev={DocAttrPanics} must violate Compiles (derive on a struct with a documented, un-renamed field)
CONSTANTS
  Dev = {"DocAttrPanics"}
  Modes = {"decl"}
  BaseSeq <- BasesTiny
  WrapSeq <- WrapsTiny
  RenSeq <- RensMC
  DocSet <- DocAll
  IntFull = FALSE
  Family = "all"
  MaxFields = 1
  MaxDepth = 3
  MaxItems = 3
  MaxNodes = 6
  Leaves = {1, 2}
  GenSizes <- SizesNone
  NVals = 0
SPECIFICATION Spec
INVARIANTS Compiles
CHECK_DEADLOCK FALSE
