CONSTANTS
  Uids <- TUids
  Passwords = {1, 2}
  Tokens <- TTokens
  MaxLive = 5
  MaxClock = 1000
  LifeDefault = 1
  LifeRefresh = 2
  LifeLong = 3
  Dev = {}
INIT TInit
NEXT TNext
INVARIANTS TypeOK Inv_Users Inv_Coherent Inv_OneLive Inv_Unique AllAgree
PROPERTIES ResultsOK
CHECK_DEADLOCK TRUE
