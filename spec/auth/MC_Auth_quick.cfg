CONSTANTS
  Uids = {1, 2}
  Passwords = {1, 2}
  Tokens = {1, 2, 3}
  MaxLive = 2
  MaxClock = 3
  LifeDefault = 1
  LifeRefresh = 2
  LifeLong = 3
  Dev = {}
INIT Init
NEXT Next
VIEW state
INVARIANTS TypeOK Inv_Users Inv_Coherent Inv_OneLive Inv_Unique
PROPERTIES ResultsOK
CHECK_DEADLOCK FALSE
