-------------------------------- MODULE Auth --------------------------------
(* Passwords and sessions of humphrey-auth (property C17).

   Two layers live side by side in one state:

   * the CODE MODEL  - `users` and `clock` - is what AuthProvider<Vec<User>> keeps: one record per
     user with the (abstracted) password hash and ONE session slot [tok, exp]; an expired session
     stays in the slot until it is overwritten, invalidated or the user is removed.  Each action
     below is one public method of AuthProvider (humphrey-auth/src/lib.rs), transcribed statement
     by statement: which lookup it does (by uid / by token, `get_user_by_token` ignores expiry),
     which filter it applies, what it stores, what it returns.

   * the REFERENCE MODEL - `refpw`, `grant`, `issued`, `created` - is written from the property
     text alone: which password a user was created with; which tokens are *live grants*
     (issued to uid, not yet expired, not invalidated, owner not removed); which tokens / uids
     were ever handed out.  It never looks at `users`.

   The properties say that every result the code model returns is the one the reference model
   demands, and that the two stay coherent.  `last` is an observation variable holding the last
   call with its arguments and its result (hidden by a VIEW in the exhaustive runs).

   Uids and tokens are small integers handed out in increasing order (= order of first appearance
   in a real run; the real values are UUIDv4 strings and 64-hex strings).  Argument 0 stands for
   "a string that was never handed out" (unknown uid, unknown / mangled token).

   Dev - named deviations.  "RefreshIgnoresExpiry" is the defect of the code as shipped
   (refresh_session used get_user_by_token without the validity filter; KNOWN_FINDINGS.txt).  The
   others are hypothetical bugs used only to show that the properties are not vacuous:
     ValidInclusive  - Session::valid is `now <= expiry`
     SecondSession   - create_session does not refuse while a valid session exists
     TokenReuse      - tokens are not fresh (smallest token not currently stored)
     UidNoExpiry     - get_uid_by_token lacks the validity filter
     VerifyAnyUser   - verify succeeds when ANY user has that password
     RemoveKeepsTok  - remove_user leaves the session reachable by token (stale index)
     RefreshAdds     - refresh extends from the old expiry instead of from now (expiry + refresh lifetime)
   "ExpiryOverflow" is a second defect of the shipped code: `now + lifetime` was computed with a plain `+`,
   so a lifetime near u64::MAX wrapped around (release build: the session is born expired; with overflow
   checks: panic) - modelled as: a "huge" lifetime yields an already expired session.                   *)
EXTENDS Naturals, FiniteSets, TLC

CONSTANTS Uids,          \* 1..n : uids in order of creation (never reused)
          Passwords,     \* password identifiers
          Tokens,        \* 1..m : tokens in order of issue
          MaxLive,       \* model bound: users existing at the same time
          MaxClock,      \* model bound: Tick is disabled at MaxClock
          LifeDefault,   \* AuthConfig.default_lifetime, in clock units
          LifeRefresh,   \* AuthConfig.default_refresh_lifetime, in clock units (>= 1)
          LifeLong,      \* the explicit lifetime used with create_session_with_lifetime
          Dev

DevNames == {"RefreshIgnoresExpiry", "ValidInclusive", "SecondSession", "TokenReuse",
             "UidNoExpiry", "VerifyAnyUser", "RemoveKeepsTok", "RefreshAdds", "ExpiryOverflow"}
ASSUME Dev \subseteq DevNames
ASSUME LifeRefresh >= 1 /\ LifeDefault >= 1 /\ LifeLong >= 1

VARIABLES users,    \* code model: [live uids -> [pw, tok, exp]]   tok = 0: no session stored
          clock,    \* code model: the time (seconds / UNIT)
          created,  \* uids ever created
          issued,   \* tokens ever issued
          refpw,    \* reference: [existing uids -> password they were created with]
          grant,    \* reference: [live tokens -> [uid, exp]]
          orphan,   \* code model, only under RemoveKeepsTok: sessions of removed users still indexed
          last      \* observation: the last call and its result
vars  == <<users, clock, created, issued, refpw, grant, orphan, last>>
state == <<users, clock, created, issued, refpw, grant, orphan>>      \* VIEW of the exhaustive runs

Min(S) == CHOOSE x \in S : \A y \in S : x <= y
Restrict(f, S) == [x \in S |-> f[x]]
Put(f, k, v) == [x \in DOMAIN f \cup {k} |-> IF x = k THEN v ELSE f[x]]

Blank == [op |-> "init", u |-> 0, pw |-> 0, life |-> "", tok |-> 0, ck |-> "",
          res |-> "", ruid |-> 0, rtok |-> 0]

\* "huge": create_session_with_lifetime with a lifetime beyond every horizon of the model (2^31 s .. u64::MAX s);
\* such a session never expires by itself: its expiry is the symbolic value Inf
Inf == 1000000
Lifetimes == {"zero", "default", "long", "huge"}
Life(l) == CASE l = "zero" -> 0 [] l = "default" -> LifeDefault [] l = "long" -> LifeLong
ExpiryAt(c, l) == IF l = "huge" THEN (IF "ExpiryOverflow" \in Dev THEN c ELSE Inf) ELSE c + Life(l)
CookieKinds == {"none", "tok", "wrongname", "among"}
   \* none: no Cookie header; tok: `HumphreyToken=<t>`; wrongname: `Token=<t>`; among: `a=b; HumphreyToken=<t>; c=d`

(***************************************************************************)
(* Code model helpers                                                      *)
(***************************************************************************)
\* Session::valid(): now < expiry
ValidAt(rec, c) == rec.tok # 0 /\ (IF "ValidInclusive" \in Dev THEN c <= rec.exp ELSE c < rec.exp)

\* Vec<User>::get_user_by_token: first user (in insertion = creation order) whose stored token equals t
FindIn(us, t) == LET H == { u \in DOMAIN us : us[u].tok = t } IN
                 IF t = 0 \/ H = {} THEN 0 ELSE Min(H)

\* what get_uid_by_token(t) answers in code state (us, c, orph): the uid, or 0 for InvalidToken
ImplAuthIn(us, c, orph, t) ==
  LET h == FindIn(us, t) IN
  IF h # 0 THEN (IF ValidAt(us[h], c) \/ "UidNoExpiry" \in Dev THEN h ELSE 0)
  ELSE IF t # 0 /\ t \in DOMAIN orph /\ c < orph[t].exp THEN orph[t].uid ELSE 0
ImplAuth(t) == ImplAuthIn(users, clock, orphan, t)

(***************************************************************************)
(* Reference model helpers                                                 *)
(***************************************************************************)
RefAuthIn(g, c, t) == IF t # 0 /\ t \in DOMAIN g /\ c < g[t].exp THEN g[t].uid ELSE 0
RefAuth(t) == RefAuthIn(grant, clock, t)
LiveGrantsOf(u) == { t \in DOMAIN grant : grant[t].uid = u /\ clock < grant[t].exp }
DropGrants(g, S) == Restrict(g, DOMAIN g \ S)

\* arguments a caller can pass: a uid / token that was handed out at some time, or 0 = any other string.
\* (The guards sit inside the actions and Next quantifies over constant sets so that TLC reports
\*  coverage per named action.)
UidArgs == created \cup {0}
TokArgs == issued \cup {0}
UidDom  == Uids \cup {0}
TokDom  == Tokens \cup {0}

Init ==
  /\ users = << >> /\ clock = 0 /\ created = {} /\ issued = {}
  /\ refpw = << >> /\ grant = << >> /\ orphan = << >>
  /\ last = Blank

(***************************************************************************)
(* AuthProvider::create_user(password) -> Ok(uid)                          *)
(***************************************************************************)
CreateUser(pw) ==
  /\ Cardinality(DOMAIN users) < MaxLive
  /\ Uids \ created # {}
  /\ LET u == Min(Uids \ created) IN
       /\ users'   = Put(users, u, [pw |-> pw, tok |-> 0, exp |-> 0])
       /\ created' = created \cup {u}
       /\ refpw'   = Put(refpw, u, pw)
       /\ last'    = [Blank EXCEPT !.op = "create_user", !.pw = pw, !.res = "ok", !.ruid = u]
  /\ UNCHANGED <<clock, issued, grant, orphan>>

(***************************************************************************)
(* remove_user(uid) -> Ok | UserNotFound                                   *)
(***************************************************************************)
RemoveUser(u) ==
  /\ u \in UidArgs
  /\ IF u \in DOMAIN users
     THEN /\ users' = Restrict(users, DOMAIN users \ {u})
          /\ orphan' = IF "RemoveKeepsTok" \in Dev /\ users[u].tok # 0
                       THEN Put(orphan, users[u].tok, [uid |-> u, exp |-> users[u].exp]) ELSE orphan
          /\ last'  = [Blank EXCEPT !.op = "remove_user", !.u = u, !.res = "ok"]
     ELSE /\ UNCHANGED <<users, orphan>>
          /\ last'  = [Blank EXCEPT !.op = "remove_user", !.u = u, !.res = "UserNotFound"]
  \* reference: a removed user has no password and none of its tokens stays granted
  /\ refpw' = Restrict(refpw, DOMAIN refpw \ {u})
  /\ grant' = DropGrants(grant, { t \in DOMAIN grant : grant[t].uid = u })
  /\ UNCHANGED <<clock, created, issued>>

(***************************************************************************)
(* verify(uid, password) -> bool                                           *)
(***************************************************************************)
Verify(u, pw) ==
  /\ u \in UidArgs
  /\ LET ok == IF "VerifyAnyUser" \in Dev THEN \E v \in DOMAIN users : users[v].pw = pw
               ELSE u \in DOMAIN users /\ users[u].pw = pw IN
     last' = [Blank EXCEPT !.op = "verify", !.u = u, !.pw = pw, !.res = IF ok THEN "true" ELSE "false"]
  /\ UNCHANGED state

(***************************************************************************)
(* exists(uid) -> bool                                                     *)
(***************************************************************************)
Exists(u) ==
  /\ u \in UidArgs
  /\ last' = [Blank EXCEPT !.op = "exists", !.u = u, !.res = IF u \in DOMAIN users THEN "true" ELSE "false"]
  /\ UNCHANGED state

(***************************************************************************)
(* create_session(uid) / create_session_with_lifetime(uid, n)              *)
(*   -> Ok(token) | UserNotFound | SessionAlreadyExists                    *)
(***************************************************************************)
Stored == { users[u].tok : u \in DOMAIN users } \ {0}
FreshPool == IF "TokenReuse" \in Dev THEN Tokens \ Stored ELSE Tokens \ issued

CreateSession(u, life) ==
  /\ u \in UidArgs
  /\ LET obs == [Blank EXCEPT !.op = "create_session", !.u = u, !.life = life] IN
     IF u \notin DOMAIN users
     THEN /\ last' = [obs EXCEPT !.res = "UserNotFound"]
          /\ UNCHANGED state
     ELSE IF ValidAt(users[u], clock) /\ "SecondSession" \notin Dev
     THEN /\ last' = [obs EXCEPT !.res = "SessionAlreadyExists"]
          /\ UNCHANGED state
     ELSE /\ FreshPool # {}                                   \* model bound on the number of tokens
          /\ LET t == Min(FreshPool)
                 e == ExpiryAt(clock, life)
                 ge == IF life = "huge" THEN Inf ELSE e IN     \* what the property grants
               /\ users'  = [users EXCEPT ![u] = [pw |-> users[u].pw, tok |-> t, exp |-> e]]
               /\ issued' = issued \cup {t}
               \* reference: the token is granted to u until e (a lifetime of 0 grants nothing)
               /\ grant'  = IF ge > clock THEN Put(grant, t, [uid |-> u, exp |-> ge]) ELSE grant
               /\ last'   = [obs EXCEPT !.res = "ok", !.rtok = t]
          /\ UNCHANGED <<clock, created, refpw, orphan>>

(***************************************************************************)
(* refresh_session(token) -> Ok | InvalidToken                             *)
(***************************************************************************)
Refresh(t) ==
  /\ t \in TokArgs
  /\ LET h   == FindIn(users, t)
         obs == [Blank EXCEPT !.op = "refresh_session", !.tok = t] IN
     IF h # 0 /\ (ValidAt(users[h], clock) \/ "RefreshIgnoresExpiry" \in Dev)
     THEN /\ users' = [users EXCEPT ![h].exp = IF "RefreshAdds" \in Dev /\ users[h].exp # Inf
                                               THEN users[h].exp + LifeRefresh ELSE clock + LifeRefresh]
          \* reference: only a live grant can be extended
          /\ grant' = IF RefAuth(t) # 0 THEN [grant EXCEPT ![t].exp = clock + LifeRefresh] ELSE grant
          /\ last'  = [obs EXCEPT !.res = "ok"]
          /\ UNCHANGED <<clock, created, issued, refpw, orphan>>
     ELSE /\ last' = [obs EXCEPT !.res = "InvalidToken"]
          /\ UNCHANGED state

(***************************************************************************)
(* invalidate_session(token)  (returns unit)                               *)
(***************************************************************************)
Invalidate(t) ==
  /\ t \in TokArgs
  /\ LET h == FindIn(users, t) IN
     users' = IF h # 0 THEN [users EXCEPT ![h].tok = 0, ![h].exp = 0] ELSE users
  /\ grant' = DropGrants(grant, {t})                         \* reference: t is no longer granted
  /\ last'  = [Blank EXCEPT !.op = "invalidate_session", !.tok = t, !.res = "ok"]
  /\ UNCHANGED <<clock, created, issued, refpw, orphan>>

(***************************************************************************)
(* invalidate_user_session(uid)  (returns unit)                            *)
(***************************************************************************)
InvalidateUser(u) ==
  /\ u \in UidArgs
  /\ users' = IF u \in DOMAIN users THEN [users EXCEPT ![u].tok = 0, ![u].exp = 0] ELSE users
  /\ grant' = DropGrants(grant, { t \in DOMAIN grant : grant[t].uid = u })
  /\ last'  = [Blank EXCEPT !.op = "invalidate_user_session", !.u = u, !.res = "ok"]
  /\ UNCHANGED <<clock, created, issued, refpw, orphan>>

(***************************************************************************)
(* get_uid_by_token(token) -> Ok(uid) | InvalidToken                       *)
(***************************************************************************)
UidByToken(t) ==
  /\ t \in TokArgs
  /\ LET a == ImplAuth(t) IN
     last' = [Blank EXCEPT !.op = "get_uid_by_token", !.tok = t,
                           !.res = IF a # 0 THEN "ok" ELSE "InvalidToken", !.ruid = a]
  /\ UNCHANGED state

(***************************************************************************)
(* a request to a route registered with with_auth_route (app.rs):          *)
(* cookie HumphreyToken present and get_uid_by_token Ok -> handler(uid),   *)
(* otherwise 401                                                           *)
(***************************************************************************)
CookieToken(ck, t) == IF ck \in {"tok", "among"} THEN t ELSE 0
AuthRoute(ck, t) ==
  /\ t \in TokArgs /\ (ck = "none" => t = 0) /\ (ck = "wrongname" => t # 0)
  /\ LET a == ImplAuth(CookieToken(ck, t)) IN
     last' = [Blank EXCEPT !.op = "auth_route", !.ck = ck, !.tok = t,
                           !.res = IF a # 0 THEN "200" ELSE "401", !.ruid = a]
  /\ UNCHANGED state

(***************************************************************************)
(* time passes                                                             *)
(***************************************************************************)
Tick ==
  /\ clock < MaxClock
  /\ clock' = clock + 1
  /\ grant' = DropGrants(grant, { t \in DOMAIN grant : grant[t].exp <= clock + 1 })   \* expired grants are gone for good
  /\ last'  = [Blank EXCEPT !.op = "tick", !.res = "ok"]
  /\ UNCHANGED <<users, created, issued, refpw, orphan>>

Next ==
  \/ \E pw \in Passwords : CreateUser(pw)
  \/ \E u \in UidDom : RemoveUser(u)
  \/ \E u \in UidDom, pw \in Passwords : Verify(u, pw)
  \/ \E u \in UidDom : Exists(u)
  \/ \E u \in UidDom, l \in Lifetimes : CreateSession(u, l)
  \/ \E t \in TokDom : Refresh(t)
  \/ \E t \in TokDom : Invalidate(t)
  \/ \E u \in UidDom : InvalidateUser(u)
  \/ \E t \in TokDom : UidByToken(t)
  \/ \E ck \in CookieKinds, t \in TokDom : AuthRoute(ck, t)
  \/ Tick

Spec == Init /\ [][Next]_vars

(***************************************************************************)
(* Properties (C17)                                                        *)
(***************************************************************************)
SessRec == [pw : Passwords, tok : Tokens \cup {0}, exp : 0..(MaxClock + LifeLong + LifeDefault + LifeRefresh) \cup {Inf}]
TypeOK ==
  /\ DOMAIN users \subseteq created /\ created \subseteq Uids /\ issued \subseteq Tokens
  /\ \A u \in DOMAIN users : users[u] \in SessRec
  /\ clock \in 0..MaxClock
  /\ DOMAIN grant \subseteq issued /\ DOMAIN refpw \subseteq created

\* the two user tables agree: a user exists in the code model iff it was created and not removed,
\* with the password it was created with
Inv_Users == DOMAIN users = DOMAIN refpw /\ \A u \in DOMAIN users : users[u].pw = refpw[u]

\* a token authenticates exactly the user it was issued to, and only while the grant is live:
\* for EVERY token ever issued (and the unknown one) the code's answer is the reference answer
Inv_Coherent == \A t \in issued \cup {0} : ImplAuth(t) = RefAuth(t)

\* at most one live session per user
Inv_OneLive == \A u \in created : Cardinality(LiveGrantsOf(u)) <= 1

\* no token is stored for two users
Inv_Unique == \A u, v \in DOMAIN users : (u # v /\ users[u].tok # 0) => users[u].tok # users[v].tok

\* --- action properties: the result of each call is the one the reference model (pre-state) demands ---
P_Verify ==
  last'.op = "verify" =>
     (last'.res = "true" <=> (last'.u \in DOMAIN refpw /\ refpw[last'.u] = last'.pw))

\* a user exists from its creation to its removal
P_Exists == last'.op = "exists" => (last'.res = "true" <=> last'.u \in DOMAIN refpw)

P_Token ==
  last'.op \in {"get_uid_by_token", "auth_route"} =>
     LET t == IF last'.op = "auth_route" THEN CookieToken(last'.ck, last'.tok) ELSE last'.tok
         a == RefAuth(t) IN
     IF a # 0 THEN last'.res \in {"ok", "200"} /\ last'.ruid = a
     ELSE last'.res \in {"InvalidToken", "401"} /\ last'.ruid = 0

\* refresh succeeds exactly on a live token, and then (only then) extends exactly that grant
P_Refresh ==
  last'.op = "refresh_session" =>
     /\ last'.res = "ok" <=> RefAuth(last'.tok) # 0
     /\ \A t \in issued : t # last'.tok => ImplAuthIn(users', clock', orphan', t) = ImplAuth(t)

\* tokens never repeat; a session is refused exactly while the user holds a live one
P_CreateSession ==
  last'.op = "create_session" =>
     /\ last'.res = "ok" => last'.rtok \notin issued /\ last'.rtok # 0
     /\ last'.res = "UserNotFound" <=> last'.u \notin DOMAIN refpw
     /\ last'.res = "SessionAlreadyExists" <=> LiveGrantsOf(last'.u) # {}

\* an expired or unknown token has no effect whatsoever, whichever operation receives it
P_DeadToken ==
  (last'.op \in {"refresh_session", "invalidate_session", "get_uid_by_token", "auth_route"}
     /\ RefAuth(last'.tok) = 0) =>
       \A t \in issued \cup {0} : ImplAuthIn(users', clock', orphan', t) = ImplAuth(t)

\* uids never repeat
P_CreateUser == last'.op = "create_user" => last'.ruid \notin created /\ last'.ruid # 0

ResultsOK == [][P_Verify /\ P_Exists /\ P_Token /\ P_Refresh /\ P_CreateSession /\ P_DeadToken /\ P_CreateUser]_vars
=============================================================================
