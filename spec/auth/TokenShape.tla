----------------------------- MODULE TokenShape -----------------------------
(* Structure of the session tokens issued by the real AuthProvider (property C17: "tokens are 256-bit
   random values").  Randomness QUALITY is not decided (DESIGN 8).  What is decided here are gross
   structural defects of the token encoding that a 256-bit uniform source cannot show: the harness
   issues N >= 256 tokens through the public API and logs each as its 64 hex digits (integers 0..15,
   -1 for a character that is no lower-case hex digit); TLC evaluates:

     IsHex64        every token has 64 hex digits (otherwise see the audit note below: encoding-independent tests)
     Distinct       the N tokens are pairwise different
     NoConstantPos  no digit position shows the same digit in all tokens
     DigitSpread    every digit position shows at least 8 of the 16 digits
     NoTwinPos      no two digit positions carry the same digit in every token (e.g. 2i-1 and 2i:
                    an encoder that writes one nibble twice)
     ByteSpread     read as 32 bytes per token, at least 64 of the 256 byte values occur overall

   False-alarm bound: for independent uniform 256-bit tokens and N >= 256,
     P(not Distinct)      <= N^2 / 2^257                        < 1e-70
     P(not NoConstantPos) <= 64 * 16^(1-N)                      < 1e-300
     P(not DigitSpread)   <= 64 * C(16,7) * (7/16)^N            < 1e-85
     P(not NoTwinPos)     <= C(64,2) * 16^(-N)                  < 1e-300
     P(not ByteSpread)    <= C(256,63) * (63/256)^(32 N)        < 1e-1000
   i.e. each far below 1e-30: a failure is a defect of the generator / encoder, not bad luck. *)
EXTENDS Naturals, Integers, Sequences, FiniteSets, TLC, Json, IOUtils

Rec == ndJsonDeserialize(IOEnv.TOKENS)      \* records [d |-> <<hex digits, -1 = no hex digit>>, c |-> <<character codes>>]
N   == Len(Rec)
Tok(k) == Rec[k].d
Chr(k) == Rec[k].c

(* FALSE-ALARM AUDIT: the statement says "256-bit random values that never repeat"; that they are written as 64
   lower-case hex digits is today's encoding, not the property.  So: when every token IS 64 hex digits (either case)
   the digit tests below decide whether the text can carry 256 bits.  For any other encoding only what every encoding
   of 256 uniform bits satisfies is demanded: the tokens are distinct, and - when they have one common length - the
   positions together show enough different characters to carry the bits: sum over the positions of
   floor(log2(number of characters seen there)) >= 192 (hex: 64 x 3 needs 8 of 16 digits per position; base64: 43 x 5;
   under a uniform source each position misses that with probability < 1e-85 for N >= 256).  The change of encoding
   itself is printed as a note (drift). *)
IsHex64 == \A k \in 1..N : Len(Tok(k)) = 64 /\ \A i \in 1..64 : Tok(k)[i] \in 0..15
WellFormed == IsHex64
Distinct   == Cardinality({ Chr(k) : k \in 1..N }) = N

PosSet(i)  == { Tok(k)[i] : k \in 1..N }
Column(i)  == [k \in 1..N |-> Tok(k)[i]]
Cols       == [i \in 1..64 |-> Column(i)]
ConstantPos == { i \in 1..64 : Cardinality(PosSet(i)) = 1 }
NarrowPos   == { i \in 1..64 : Cardinality(PosSet(i)) < 8 }
TwinPos     == LET C == Cols IN { p \in (1..64) \X (1..64) : p[1] < p[2] /\ C[p[1]] = C[p[2]] }
ByteValues  == { 16 * Tok(k)[2 * i - 1] + Tok(k)[2 * i] : k \in 1..N, i \in 1..32 }

\* any encoding
Lengths == { Len(Chr(k)) : k \in 1..N }
FloorLog2(n) == CASE n >= 128 -> 7 [] n >= 64 -> 6 [] n >= 32 -> 5 [] n >= 16 -> 4 [] n >= 8 -> 3 [] n >= 4 -> 2 [] n >= 2 -> 1 [] OTHER -> 0
RECURSIVE SumTo(_, _)
SumTo(f, n) == IF n = 0 THEN 0 ELSE f[n] + SumTo(f, n - 1)
Capacity(L) == SumTo([i \in 1..L |-> FloorLog2(Cardinality({ Chr(k)[i] : k \in 1..N }))], L)

VARIABLE done
Init == done = FALSE
Next == done = FALSE /\ done' = TRUE

\* one invariant, evaluated in the second (last) state; on failure the findings are printed as JSON for the driver
ShapeOK == done =>
  IF N < 256 THEN PrintT(ToJson([failed |-> <<"TooFewTokens">>, tokens |-> N])) /\ FALSE
  ELSE IF ~IsHex64
  THEN LET cap == IF Cardinality(Lengths) = 1 THEN Capacity(CHOOSE x \in Lengths : TRUE) ELSE 0 - 1
           failed == (IF Distinct THEN << >> ELSE <<"Distinct">>)
                     \o (IF cap = 0 - 1 \/ cap >= 192 THEN << >> ELSE <<"Capacity">>)
       IN /\ PrintT(ToJson([note |-> "tokens are not 64 hex digits: only encoding-independent tests apply",
                             lengths |-> Lengths, capacity_bits_lower_bound |-> cap, tokens |-> N]))
          /\ \/ failed = << >>
             \/ PrintT(ToJson([failed |-> failed, tokens |-> N, lengths |-> Lengths, capacity_bits_lower_bound |-> cap])) /\ FALSE
  ELSE LET cp == ConstantPos
           np == NarrowPos
           tp == TwinPos
           bv == Cardinality(ByteValues)
           failed == (IF Distinct THEN << >> ELSE <<"Distinct">>)
                     \o (IF cp = {} THEN << >> ELSE <<"NoConstantPos">>)
                     \o (IF np = {} THEN << >> ELSE <<"DigitSpread">>)
                     \o (IF tp = {} THEN << >> ELSE <<"NoTwinPos">>)
                     \o (IF bv >= 64 THEN << >> ELSE <<"ByteSpread">>)
       IN IF failed = << >> THEN TRUE
          ELSE PrintT(ToJson([failed |-> failed, tokens |-> N, constant_positions |-> cp, narrow_positions |-> np,
                              twin_positions |-> tp, distinct_byte_values |-> bv])) /\ FALSE
=============================================================================
