----------------------------- MODULE TokenShape -----------------------------
(* Structure of the session tokens issued by the real AuthProvider (property C17: "tokens are 256-bit
   random values").  Randomness QUALITY is not decided (DESIGN 8).  What is decided here are gross
   structural defects of the token encoding that a 256-bit uniform source cannot show: the harness
   issues N >= 256 tokens through the public API and logs each as its 64 hex digits (integers 0..15,
   -1 for a character that is no lower-case hex digit); TLC evaluates:

     WellFormed     every token has 64 digits in 0..15
     Distinct       the N tokens are pairwise different
     NoConstantPos  no digit position shows the same digit in all tokens
     DigitSpread    every digit position shows at least 8 of the 16 digits
     NoTwinPos      no two digit positions carry the same digit in every token (e.g. 2i-1 and 2i:
                    an encoder that writes one nibble twice)
     ByteSpread     read as 32 bytes per token, at least 64 of the 256 byte values occur overall

   False-alarm bound: for independent uniform 256-bit tokens and N >= 256,
     P(not Distinct)      <= N^2 / 2^257                        < 1e-70
     P(not NoConstantPos) <= 64 * 16^(1-N)                      < 1e-300
     P(not DigitSpread)   <= 64 * C(16,7) * (7/16)^N            < 1e-85
     P(not NoTwinPos)     <= C(64,2) * 16^(-N)                  < 1e-300
     P(not ByteSpread)    <= C(256,63) * (63/256)^(32 N)        < 1e-1000
   i.e. each far below 1e-30: a failure is a defect of the generator / encoder, not bad luck. *)
EXTENDS Naturals, Integers, Sequences, FiniteSets, TLC, Json, IOUtils

Rec == ndJsonDeserialize(IOEnv.TOKENS)      \* records [d |-> <<64 digits>>]
N   == Len(Rec)
Tok(k) == Rec[k].d

WellFormed == \A k \in 1..N : Len(Tok(k)) = 64 /\ \A i \in 1..64 : Tok(k)[i] \in 0..15
Distinct   == Cardinality({ Tok(k) : k \in 1..N }) = N

PosSet(i)  == { Tok(k)[i] : k \in 1..N }
Column(i)  == [k \in 1..N |-> Tok(k)[i]]
Cols       == [i \in 1..64 |-> Column(i)]
ConstantPos == { i \in 1..64 : Cardinality(PosSet(i)) = 1 }
NarrowPos   == { i \in 1..64 : Cardinality(PosSet(i)) < 8 }
TwinPos     == LET C == Cols IN { p \in (1..64) \X (1..64) : p[1] < p[2] /\ C[p[1]] = C[p[2]] }
ByteValues  == { 16 * Tok(k)[2 * i - 1] + Tok(k)[2 * i] : k \in 1..N, i \in 1..32 }

VARIABLE done
Init == done = FALSE
Next == done = FALSE /\ done' = TRUE

\* one invariant, evaluated in the second (last) state; on failure the findings are printed as JSON for the driver
ShapeOK == done =>
  IF N < 256 THEN PrintT(ToJson([failed |-> <<"TooFewTokens">>, tokens |-> N])) /\ FALSE
  ELSE IF ~WellFormed THEN PrintT(ToJson([failed |-> <<"WellFormed">>, tokens |-> N])) /\ FALSE
  ELSE LET cp == ConstantPos
           np == NarrowPos
           tp == TwinPos
           bv == Cardinality(ByteValues)
           failed == (IF Distinct THEN << >> ELSE <<"Distinct">>)
                     \o (IF cp = {} THEN << >> ELSE <<"NoConstantPos">>)
                     \o (IF np = {} THEN << >> ELSE <<"DigitSpread">>)
                     \o (IF tp = {} THEN << >> ELSE <<"NoTwinPos">>)
                     \o (IF bv >= 64 THEN << >> ELSE <<"ByteSpread">>)
       IN IF failed = << >> THEN TRUE
          ELSE PrintT(ToJson([failed |-> failed, tokens |-> N, constant_positions |-> cp, narrow_positions |-> np,
                              twin_positions |-> tp, distinct_byte_values |-> bv])) /\ FALSE
=============================================================================
