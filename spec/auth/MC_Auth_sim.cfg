CONSTANTS
  Uids = {1, 2, 3, 4, 5, 6, 7, 8, 9, 10}
  Passwords = {1, 2, 3}
  Tokens = {1, 2, 3, 4, 5, 6, 7, 8, 9, 10, 11, 12, 13, 14, 15, 16, 17, 18, 19, 20}
  MaxLive = 5
  MaxClock = 12
  LifeDefault = 2
  LifeRefresh = 3
  LifeLong = 5
  Dev = {}
INIT Init
NEXT Next
INVARIANTS TypeOK Inv_Users Inv_Coherent Inv_OneLive Inv_Unique
PROPERTIES ResultsOK
CHECK_DEADLOCK FALSE
