INIT Init
NEXT Next
INVARIANT ShapeOK
CHECK_DEADLOCK FALSE
