CONSTANTS
  Uids = {1, 2}
  Passwords = {1, 2}
  Tokens = {1, 2}
  MaxLive = 2
  MaxClock = 2
  LifeDefault = 1
  LifeRefresh = 1
  LifeLong = 2
  Dev = {"ExpiryOverflow"}
INIT Init
NEXT Next
VIEW state
INVARIANTS TypeOK Inv_Users Inv_Coherent Inv_OneLive Inv_Unique
PROPERTIES ResultsOK
CHECK_DEADLOCK FALSE
