----------------------------- MODULE Trace_Auth -----------------------------
(* Code -> spec direction for C17 (method C).  The harness runs random operation sequences on a real
   AuthProvider and logs one ndjson record per call:
     op, u, pw, life, tok, ck   the call, in the spec's numbering (uids / tokens numbered by first
                                appearance, 0 = a string that was never handed out)
     res, ruid, rtok            what the real call returned
     c, st                      the harness clock and the projection [[uid, tok, exp], ..] of the real database
                                after the call
   A "reset" record starts a new run (fresh provider).  Every record is replayed with the action of
   Auth.tla for that call; the action's result and the successor state must be exactly what was
   logged.  The first disagreement of a run is recorded (index, what the spec demanded) and the rest of
   that run is skipped, since the two states have diverged.  All invariants of Auth and the action
   property ResultsOK are evaluated along the accepted behaviour. *)
EXTENDS Auth, Json, IOUtils, Sequences

TUids   == 1..80
TTokens == 1..80

Rec == ndJsonDeserialize(IOEnv.TRACE)

VARIABLES l, bad, skip
tvars == <<l, bad, skip>>

TInit == Init /\ l = 1 /\ bad = << >> /\ skip = FALSE

Do(e) ==
  \/ e.op = "create_user" /\ CreateUser(e.pw)
  \/ e.op = "remove_user" /\ RemoveUser(e.u)
  \/ e.op = "verify" /\ Verify(e.u, e.pw)
  \/ e.op = "exists" /\ Exists(e.u)
  \/ e.op = "create_session" /\ CreateSession(e.u, e.life)
  \/ e.op = "refresh_session" /\ Refresh(e.tok)
  \/ e.op = "invalidate_session" /\ Invalidate(e.tok)
  \/ e.op = "invalidate_user_session" /\ InvalidateUser(e.u)
  \/ e.op = "get_uid_by_token" /\ UidByToken(e.tok)
  \/ e.op = "auth_route" /\ AuthRoute(e.ck, e.tok)
  \/ e.op = "tick" /\ Tick

Range(s) == { s[i] : i \in 1..Len(s) }
\* primed: evaluated after Do(e) has fixed the successor
AgreeNext(e) ==
  /\ last'.res = e.res /\ last'.ruid = e.ruid /\ last'.rtok = e.rtok
  /\ clock' = e.c
  /\ Len(e.st) = Cardinality(DOMAIN users')
  /\ { <<u, users'[u].tok, users'[u].exp>> : u \in DOMAIN users' } = { <<r[1], r[2], r[3]>> : r \in Range(e.st) }

TNext ==
  \/ /\ l <= Len(Rec)
     /\ l' = l + 1
     /\ LET e == Rec[l] IN
        IF e.op = "reset"
        THEN /\ users' = << >> /\ clock' = 0 /\ created' = {} /\ issued' = {}
             /\ refpw' = << >> /\ grant' = << >> /\ orphan' = << >> /\ last' = Blank
             /\ skip' = FALSE /\ bad' = bad
        ELSE IF skip
        THEN UNCHANGED <<vars, bad, skip>>
        ELSE /\ Do(e)
             /\ IF AgreeNext(e) THEN UNCHANGED <<bad, skip>>
                ELSE /\ skip' = TRUE
                     /\ bad' = IF Len(bad) >= 20 THEN bad
                               ELSE Append(bad, [index |-> l, logged |-> e, spec_result |-> last',
                                                 spec_clock |-> clock',
                                                 spec_state |-> { <<u, users'[u].tok, users'[u].exp>> : u \in DOMAIN users' }])
  \/ /\ l > Len(Rec) /\ UNCHANGED <<vars, tvars>>      \* done; anything else that cannot step is a deadlock = stuck record

TSpec == TInit /\ [][TNext]_<<vars, tvars>>

\* checked at the last state: the first disagreement of each rejected run is printed for the driver
AllAgree == (l = Len(Rec) + 1) =>
              \/ bad = << >>
              \/ PrintT(ToJson([rejected |-> bad])) /\ FALSE
=============================================================================
