----------------------------- MODULE Trace_Auth -----------------------------
(* Code -> spec direction for C17 (method C).  The harness runs random operation sequences on a real
   AuthProvider and logs one ndjson record per call:
     op, u, pw, life, tok, ck   the call, in the spec's numbering (uids / tokens numbered by first
                                appearance, 0 = a string that was never handed out)
     res, ruid, rtok            what the real call returned
     c, st                      the harness clock and the projection [[uid, tok, exp], ..] of the real database
                                after the call
   A "reset" record starts a new run (fresh provider).  Every record is replayed with the action of
   Auth.tla for that call; the action's RESULT must be the logged one (see ResAgree below: this gates);
   differences in what the statement leaves open and in the stored state are collected as drift.  The
   first disagreement of a run is recorded (index, what the spec demanded) and the rest of that run is
   skipped.  All invariants of Auth and the action property ResultsOK are evaluated along the behaviour. *)
EXTENDS Auth, Json, IOUtils, Sequences

TUids   == 1..80
TTokens == 1..80

Rec == ndJsonDeserialize(IOEnv.TRACE)

VARIABLES l, bad, skip, soft
tvars == <<l, bad, skip, soft>>

TInit == Init /\ l = 1 /\ bad = << >> /\ skip = FALSE /\ soft = << >>

Do(e) ==
  \/ e.op = "create_user" /\ CreateUser(e.pw)
  \/ e.op = "remove_user" /\ RemoveUser(e.u)
  \/ e.op = "verify" /\ Verify(e.u, e.pw)
  \/ e.op = "exists" /\ Exists(e.u)
  \/ e.op = "create_session" /\ CreateSession(e.u, e.life)
  \/ e.op = "refresh_session" /\ Refresh(e.tok)
  \/ e.op = "invalidate_session" /\ Invalidate(e.tok)
  \/ e.op = "invalidate_user_session" /\ InvalidateUser(e.u)
  \/ e.op = "get_uid_by_token" /\ UidByToken(e.tok)
  \/ e.op = "auth_route" /\ AuthRoute(e.ck, e.tok)
  \/ e.op = "tick" /\ Tick

Range(s) == { s[i] : i \in 1..Len(s) }

(* FALSE-ALARM AUDIT - what a recorded call is judged on.
   The statement of C17 speaks about results: whether a password verifies, whether a token authenticates and whom,
   whether a session / refresh is granted or refused, that uids and tokens never repeat.  It does not fix WHICH
   AuthError a refusal carries, which status a refused route request gets, what `exists` answers (not an operation of
   the property) or what remove_user answers for a uid that is not there; and it says nothing about the stored fields.
   So the harness logs `res` in the vocabulary ok / true / false / err / 200 / rej / panic (+ `detail`), and:
     ResAgree  (gates)  the class of the result and the returned uid / token number are the ones the spec demands;
     soft      (drift)  the error kind / status differs from the code model's, the free results differ, or the
                        projection of the database differs from the code model's successor state.
   After a soft difference the spec simply goes on from ITS successor: by Inv_Coherent / ResultsOK (checked by TLC)
   every later result the code model predicts is the one the reference model demands, and the reference model depends
   on the calls and their results only, not on how the implementation stores them. *)
Norm(r) == CASE r \in {"UserNotFound", "InvalidToken", "SessionAlreadyExists"} -> "err"
             [] r = "401" -> "rej"
             [] OTHER -> r
FreeResult(e) == e.op = "exists" \/ (e.op = "remove_user" /\ last'.res = "UserNotFound")
ResAgree(e) ==
  \/ FreeResult(e) /\ e.res # "panic"
  \/ Norm(last'.res) = e.res /\ last'.ruid = e.ruid /\ last'.rtok = e.rtok
DetailAgree(e) ==
  /\ Norm(last'.res) = e.res
  /\ e.res \in {"err", "rej"} => e.detail = last'.res
  /\ e.note = ""
ProjAgree(e) ==
  /\ clock' = e.c
  /\ Len(e.st) = Cardinality(DOMAIN users')
  /\ { <<u, users'[u].tok, users'[u].exp>> : u \in DOMAIN users' } = { <<r[1], r[2], r[3]>> : r \in Range(e.st) }

TNext ==
  \/ /\ l <= Len(Rec)
     /\ l' = l + 1
     /\ LET e == Rec[l] IN
        IF e.op = "reset"
        THEN /\ users' = << >> /\ clock' = 0 /\ created' = {} /\ issued' = {}
             /\ refpw' = << >> /\ grant' = << >> /\ orphan' = << >> /\ last' = Blank
             /\ skip' = FALSE /\ UNCHANGED <<bad, soft>>
        ELSE IF skip
        THEN UNCHANGED <<vars, bad, skip, soft>>
        ELSE /\ Do(e)
             /\ IF ResAgree(e)
                THEN /\ UNCHANGED <<bad, skip>>
                     /\ soft' = IF (DetailAgree(e) /\ ProjAgree(e)) \/ Len(soft) >= 12 THEN soft
                                ELSE Append(soft, [index |-> l, logged |-> e, spec_result |-> last'.res,
                                                   spec_state |-> { <<u, users'[u].tok, users'[u].exp>> : u \in DOMAIN users' }])
                ELSE /\ skip' = TRUE /\ UNCHANGED soft
                     /\ bad' = IF Len(bad) >= 20 THEN bad
                               ELSE Append(bad, [index |-> l, logged |-> e, spec_result |-> last',
                                                 spec_clock |-> clock',
                                                 spec_state |-> { <<u, users'[u].tok, users'[u].exp>> : u \in DOMAIN users' }])
  \/ /\ l > Len(Rec) /\ UNCHANGED <<vars, tvars>>      \* done; anything else that cannot step is a deadlock = stuck record

TSpec == TInit /\ [][TNext]_<<vars, tvars>>

\* checked at the last state: the first disagreement of each rejected run is printed for the driver
AllAgree == (l = Len(Rec) + 1) =>
              /\ soft = << >> \/ PrintT(ToJson([drift |-> soft]))      \* reported, never fails
              /\ \/ bad = << >>
                 \/ PrintT(ToJson([rejected |-> bad])) /\ FALSE
=============================================================================
