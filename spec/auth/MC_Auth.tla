------------------------------ MODULE MC_Auth ------------------------------
(* TLC-only helpers for Auth: the edge dump used by the automaton replay (method B). *)
EXTENDS Auth, Json, Sequences

NU == Cardinality(Uids)          \* Uids = 1..NU, Tokens = 1..NT in every config
ASSUME Uids = 1..NU /\ Tokens = 1..Cardinality(Tokens)

\* the part of the state the harness can observe on the real AuthProvider (plus the two counters that
\* fix the numbering of the next uid / token): <<clock, #uids created, #tokens issued, slot_1, .., slot_NU>>,
\* slot_i = <<pw, tok, exp>> of uid i, <<0,0,0>> = no such user
SRec(us, c, cr, is) ==
  <<c, Cardinality(cr), Cardinality(is)>> \o
  [i \in 1..NU |-> IF i \in DOMAIN us THEN <<us[i].pw, us[i].tok, us[i].exp>> ELSE <<0, 0, 0>>]

ARec(l) == <<l.op, l.u, l.pw, l.life, l.tok, l.ck, l.res, l.ruid, l.rtok>>

\* ACTION_CONSTRAINT: evaluated for every generated transition (before the seen-check), prints the edge
\* as one line  "E[s, a, t]"  (t = 0 when the observable state does not change)
EdgeOut ==
  LET s == SRec(users, clock, created, issued)
      t == SRec(users', clock', created', issued') IN
  PrintT("E" \o ToJson(<<s, ARec(last'), IF t = s THEN <<>> ELSE t>>))
=============================================================================
