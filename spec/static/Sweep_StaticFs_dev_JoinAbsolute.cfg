CONSTANTS
  Dev = {"JoinAbsolute"}
  CatN = 1
  RouteN = 4
  MaxDepth = 0
INIT SweepInit
NEXT SweepNext
INVARIANT SweepConfined
CHECK_DEADLOCK FALSE
