CONSTANTS
  Dev = {"JoinAbsolute"}
  CatN = 1
  RouteN = 3
  MaxDepth = 0
INIT SweepInit
NEXT SweepNext
INVARIANT SweepConfined
CHECK_DEADLOCK FALSE
