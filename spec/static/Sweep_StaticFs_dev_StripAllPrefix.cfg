CONSTANTS
  Dev = {"StripAllPrefix"}
  CatN = 1
  RouteN = 3
  MaxDepth = 0
INIT SweepInit
NEXT SweepNext
INVARIANT SweepPrefix
CHECK_DEADLOCK FALSE
