CONSTANTS
  Dev = {}
  CatN = 1
  RouteN = 3
  MaxDepth = 0
SPECIFICATION TSpec
INVARIANTS AllAgree TraceWorldsOk
CHECK_DEADLOCK FALSE
