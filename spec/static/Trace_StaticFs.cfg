CONSTANTS
  Dev = {}
  CatN = 1
  RouteN = 3
  MaxDepth = 0
SPECIFICATION TSpec
INVARIANTS AllAgree DriftNote TraceWorldsOk
CHECK_DEADLOCK FALSE
