CONSTANTS
  Dev = {"DecodeTwice"}
  CatN = 18
  RouteN = 3
  MaxDepth = 3
INIT Init
NEXT Next
INVARIANTS Positive
CHECK_DEADLOCK FALSE
