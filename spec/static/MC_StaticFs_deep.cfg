CONSTANTS
  Dev = {}
  CatN = 18
  RouteN = 1
  MaxDepth = 5
INIT Init
NEXT Next
INVARIANTS WorldsOk SharedIsHandle PrefixRule ConfinedAndConforms GuardSound Positive RedirectIndex
CHECK_DEADLOCK FALSE
