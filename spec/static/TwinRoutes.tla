----------------------------- MODULE TwinRoutes -----------------------------
(* C06, the server's `directory` routes with the response cache switched on, several routes at once.

   humphrey-server/src/server/static.rs directory_handler: blacklist check, cache_check (Cache::get under
   the key (request.uri, host index)), strip the route's literal prefix, try_find_path below the route's
   directory, inner_file_handler (read, Cache::set under the same key, respond).  A running server holds ONE
   cache for all routes of all hosts, so "only ever return the contents of regular files located inside the
   configured directory" also depends on the key telling routes apart: two `directory` routes that map to
   different directories and hold files with the same route-relative path (the default `/*` next to `/docs/*`,
   or the same prefix on two hosts) must never answer each other's requests from the cache.

   State: the shared cache (key -> content id), nothing else (the file system does not change here; staleness
   and eviction are C16's business: the limits are generous).  One action per request, as the handler is one
   critical section from the point of view of a sequential client:
       Request(r, p)   route r is asked for its relative path p; answered from the cache on a hit, else from
                       the file system (stored when the target is a regular file)

   Routes, directories and files are fixed tables (TwinTables below); content ids are distinct per
   (directory, path), 0 = no such file (404).

   Dev = {} is the code as written.  Deviations (sensitivity; each must violate Inv_Inside):
       RouteRelativeKey   the key is the path relative to the route (aliases of one directory share entries)
       HostlessKey        the key is the uri alone (routes with the same prefix on two hosts collide)            *)
EXTENDS Integers, Sequences, FiniteSets, TLC, Json

CONSTANTS Dev, MaxLen

DevNames == {"RouteRelativeKey", "HostlessKey"}
ASSUME Dev \subseteq DevNames

\* route name |-> host index, literal prefix, directory
Routes == [ pub   |-> [host |-> 0, prefix |-> "/pub/",   dir |-> "A"],
            intra |-> [host |-> 0, prefix |-> "/intra/", dir |-> "B"],
            root  |-> [host |-> 0, prefix |-> "/",       dir |-> "A"],
            other |-> [host |-> 1, prefix |-> "/pub/",   dir |-> "B"] ]
RouteNames == DOMAIN Routes

\* relative paths asked for; "" is the directory itself (answered by its index.html)
Rels == {"", "report.txt", "docs/data.json", "only-b.txt", "docs/"}

\* content id of the regular file a relative path resolves to inside a directory (0: nothing / 404).
\* ""  and "docs/" resolve to the index.html of that directory.  Ids: 1xx in A, 2xx in B.
FileAt(dir, p) ==
  IF dir = "A"
  THEN CASE p = ""               -> 101
         [] p = "report.txt"     -> 102
         [] p = "docs/data.json" -> 103
         [] p = "docs/"          -> 104
         [] OTHER                -> 0
  ELSE CASE p = ""               -> 201
         [] p = "report.txt"     -> 202
         [] p = "docs/data.json" -> 203
         [] p = "only-b.txt"     -> 205
         [] OTHER                -> 0          \* B/docs has no index: "docs/" is a 404 there

IdsIn(dir) == {FileAt(dir, p) : p \in Rels} \ {0}

Uri(r, p) == Routes[r].prefix \o p

\* the key under which the handler caches the answer to (route r, relative path p)
Key(r, p) ==
  CASE "RouteRelativeKey" \in Dev -> <<p, Routes[r].host>>
    [] "HostlessKey" \in Dev      -> <<Uri(r, p), 0>>
    [] OTHER                      -> <<Uri(r, p), Routes[r].host>>

AllKeys == {Key(r, p) : r \in RouteNames, p \in Rels}

VARIABLES cache,   \* [AllKeys -> content id], 0 = not cached
          hist     \* sequence of [r, p, id, hit]: the requests made and what was answered (generation / invariants)
vars == <<cache, hist>>

Init == cache = [k \in AllKeys |-> 0] /\ hist = <<>>

Request(r, p) ==
  LET k == Key(r, p)
      hit == cache[k] # 0
      id == IF hit THEN cache[k] ELSE FileAt(Routes[r].dir, p)
  IN  /\ Len(hist) < MaxLen
      /\ cache' = IF hit \/ id = 0 THEN cache ELSE [cache EXCEPT ![k] = id]
      /\ hist' = Append(hist, [r |-> r, p |-> p, id |-> id, hit |-> hit])

Next == \E r \in RouteNames, p \in Rels : Request(r, p)
Spec == Init /\ [][Next]_vars

(* C06: whatever is answered is a regular file of the route's own directory ... *)
Inv_Inside == \A i \in 1..Len(hist) : hist[i].id = 0 \/ hist[i].id \in IdsIn(Routes[hist[i].r].dir)
(* ... and, conversely, the file asked for, intact (404 exactly when the directory has no such file) *)
Inv_Intact == \A i \in 1..Len(hist) : hist[i].id = FileAt(Routes[hist[i].r].dir, hist[i].p)

\* vacuity guards (negated and expected to be violated): the cache is hit; two routes ask the same relative path
Wit_NoHit  == \A i \in 1..Len(hist) : ~hist[i].hit
Wit_NoTwin == \A i, j \in 1..Len(hist) : ~(i < j /\ hist[i].p = hist[j].p /\ Routes[hist[i].r].dir # Routes[hist[j].r].dir /\ hist[j].hit)

----------------------------------------------------------------------------
(* Generation: one JSON line per complete behaviour of length MaxLen (every shorter one is a prefix). *)
GenInv == Len(hist) = MaxLen =>
            PrintT(ToJson([twin |-> [i \in 1..Len(hist) |->
                     [host |-> Routes[hist[i].r].host, route |-> Routes[hist[i].r].prefix \o "*", dir |-> Routes[hist[i].r].dir,
                      uri |-> Uri(hist[i].r, hist[i].p), id |-> hist[i].id, hit |-> hist[i].hit]]]))
=============================================================================
