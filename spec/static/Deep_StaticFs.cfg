CONSTANTS
  Dev = {}
  CatN = 18
  RouteN = 1
  MaxDepth = 5
INIT GenInit
NEXT GenNext
INVARIANTS PrefixRule GuardSound DeepInv
CHECK_DEADLOCK FALSE
