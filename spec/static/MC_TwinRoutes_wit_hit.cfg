CONSTANTS
  Dev = {}
  MaxLen = 3
SPECIFICATION Spec
INVARIANT Wit_NoHit
CHECK_DEADLOCK FALSE
