CONSTANTS
  Dev = {"StripAllDirectory"}
  CatN = 1
  RouteN = 4
  MaxDepth = 0
INIT SweepInit
NEXT SweepNext
INVARIANT SweepPrefix
CHECK_DEADLOCK FALSE
