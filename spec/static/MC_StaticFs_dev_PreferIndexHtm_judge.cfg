CONSTANTS
  Dev = {"PreferIndexHtm"}
  CatN = 18
  RouteN = 3
  MaxDepth = 2
INIT Init
NEXT Next
INVARIANT ModelJudged
CHECK_DEADLOCK FALSE
