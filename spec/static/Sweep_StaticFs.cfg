CONSTANTS
  Dev = {}
  CatN = 1
  RouteN = 4
  MaxDepth = 0
INIT SweepInit
NEXT SweepNext
INVARIANT SweepInv
CHECK_DEADLOCK FALSE
