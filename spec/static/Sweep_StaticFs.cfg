CONSTANTS
  Dev = {}
  CatN = 1
  RouteN = 3
  MaxDepth = 0
INIT SweepInit
NEXT SweepNext
INVARIANT SweepInv
CHECK_DEADLOCK FALSE
