CONSTANTS
  Dev = {"HostlessKey"}
  MaxLen = 3
SPECIFICATION Spec
INVARIANT Inv_Inside
CHECK_DEADLOCK FALSE
