CONSTANTS
  Dev = {}
  MaxLen = 4
SPECIFICATION Spec
INVARIANT GenInv
CHECK_DEADLOCK FALSE
