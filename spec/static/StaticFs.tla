------------------------------ MODULE StaticFs ------------------------------
(* Property C06: the static handlers of Humphrey stay inside their directory and serve what is
   inside it intact.

   The model is state-less as far as the server is concerned: a request is a byte string, a
   *world* is a little file system (a set of nodes: path from the top, kind, content id) in which
   the served directory `root` sits five levels below the top with a canary file and an
   `index.html` twin BESIDE it.  Three layers:

   1. primitives written from the documentation of what they stand for: percent-decoding, UTF-8
      well-formedness, splitting at `/`, what the operating system does when it is handed a path
      relative to a directory (empty components and `.` stay, `..` goes to the parent, a component
      below a regular file is ENOTDIR, a NUL byte makes the call fail), Rust's Path::extension,
      the MIME table;
   2. the *handler model*: try_find_path / serve_dir / the server's directory_handler /
      serve_as_file_path transcribed statement by statement from humphrey/src/route.rs,
      handlers.rs and humphrey-server/src/server/static.rs, with the named deviations `Dev`;
   3. the *property*: Confinement, GuardSound, the positive half (every clean file is returned with
      its type), the redirect / index rule, the prefix rule - stated on worlds and outcomes only -
      and `Expect*`, the set of answers the property text admits for a request (strict where the
      text pins the answer, lenient where it does not; DESIGN 5a).

   TLC (MC_StaticFs*.cfg) enumerates every request path of the bound as a state (Next appends one
   segment spelling from the catalogue) and proves that the handler model with Dev = {} satisfies the
   property for three worlds; every named deviation is refuted.  The harness (bin staticfs) builds
   the worlds on disk, calls the real handlers and compares with Expect* as printed by TLC; in the
   other direction random worlds and deeper requests recorded from the real code are checked by
   Trace_StaticFs with the same operators.

   Bytes are integers 0..255, strings are sequences of bytes; B("text") spells ASCII.           *)
EXTENDS Integers, Sequences, FiniteSets, TLC

CONSTANTS Dev,        \* subset of DevNames: deviations of the handler model
          CatN,       \* the first CatN entries of Catalogue are used
          RouteN,     \* the first RouteN entries of RouteList are used
          MaxDepth    \* number of segments per request path

DevNames == { "FilePathNoCheck",    \* serve_as_file_path joins the URI under the directory with no check (code before the repair)
              "DecodeTwice",        \* plausible bug: the request path is percent-decoded a second time after the guard
              "GuardBeforeDecode",  \* plausible bug: `..` is looked for before decoding
              "GuardPrefixOnly",    \* plausible bug: starts_with("..") instead of contains("..")
              "PreferIndexHtm",     \* plausible bug: index.htm is tried before index.html
              "StripByBytes",       \* plausible bug: directory_handler counts route characters but removes bytes
              "NoRedirect",         \* plausible bug: a directory without trailing slash is answered with its index
              "HexLowerOnly",       \* plausible bug: only lower-case hex digits are accepted in an escape
              "StripAllPrefix",     \* plausible bug: serve_dir removes the route prefix as often as it occurs (trim_start_matches)
              "StripAllDirectory",  \* plausible bug: directory_handler removes every leading repetition of the route prefix (trim_start_matches)
              "ExtFirstDot",        \* plausible bug: the extension is what follows the FIRST dot of the name
              "TrimNames",          \* plausible bug: the decoded path is trim()med (Unicode white space at both ends)
              "JoinAbsolute" }      \* plausible bug: serve_as_file_path joins with Path::join, an absolute uri path replaces the directory
ASSUME Dev \subseteq DevNames

(***************************************************************************)
(* 1. Primitives                                                           *)
(***************************************************************************)
Printable == " !\"#$%&'()*+,-./0123456789:;<=>?@ABCDEFGHIJKLMNOPQRSTUVWXYZ[\\]^_`abcdefghijklmnopqrstuvwxyz{|}~"
Ord == [c \in {SubSeq(Printable, i, i) : i \in 1..Len(Printable)} |->
          31 + (CHOOSE i \in 1..Len(Printable) : SubSeq(Printable, i, i) = c)]
B(s) == [i \in 1..Len(s) |-> Ord[SubSeq(s, i, i)]]          \* ASCII string -> bytes

SLASH == 47
DOT   == 46
PCT   == 37
COLON == 58
STAR  == 42
NUL   == 0
BAD   == 256            \* marker: not a byte

Range(s) == {s[i] : i \in DOMAIN s}
Drop(s, n) == SubSeq(s, n + 1, Len(s))
Last(s) == s[Len(s)]
IsPrefix(p, s) == Len(p) <= Len(s) /\ \A i \in 1..Len(p) : s[i] = p[i]
HasSub(s, t) == \E i \in 1..(Len(s) - Len(t) + 1) : \A j \in 1..Len(t) : s[i + j - 1] = t[j]

RECURSIVE Concat(_)
Concat(ss) == IF ss = <<>> THEN <<>> ELSE Head(ss) \o Concat(Tail(ss))
RECURSIVE JoinSlash(_)
JoinSlash(ss) == IF ss = <<>> THEN <<>> ELSE IF Len(ss) = 1 THEN ss[1] ELSE ss[1] \o <<SLASH>> \o JoinSlash(Tail(ss))

\* ---- percent-decoding (RFC 3986 2.1): `%` HEXDIG HEXDIG stands for that byte, every other byte for itself;
\*      a `%` not followed by two hex digits is malformed (the result then contains BAD)
Hex(b) == IF b >= 48 /\ b <= 57 THEN b - 48
          ELSE IF b >= 65 /\ b <= 70 THEN b - 55
          ELSE IF b >= 97 /\ b <= 102 THEN b - 87 ELSE BAD
RECURSIVE DecFrom(_, _)
DecFrom(u, i) ==
  IF i > Len(u) THEN <<>>
  ELSE IF u[i] # PCT THEN <<u[i]>> \o DecFrom(u, i + 1)
  ELSE IF i + 2 > Len(u) THEN <<BAD>>
  ELSE IF Hex(u[i + 1]) = BAD \/ Hex(u[i + 2]) = BAD THEN <<BAD>>
  ELSE <<16 * Hex(u[i + 1]) + Hex(u[i + 2])>> \o DecFrom(u, i + 3)
Has(s, b) == \E i \in 1..Len(s) : s[i] = b
PercentDecode(u) == IF Has(u, PCT) THEN DecFrom(u, 1) ELSE u
\* (deviation HexLowerOnly: an escape with an upper-case hex digit is malformed)
UpperHexEscape(u) == \E i \in 1..(Len(u) - 2) : u[i] = PCT /\ \E j \in {i + 1, i + 2} : u[j] >= 65 /\ u[j] <= 70
PercentDecodeD(dv, u) == IF "HexLowerOnly" \in dv /\ UpperHexEscape(u) THEN <<BAD>> ELSE PercentDecode(u)
HexDigitU(n) == IF n < 10 THEN 48 + n ELSE 55 + n
HexDigitL(n) == IF n < 10 THEN 48 + n ELSE 87 + n
EncAllU(s) == Concat([i \in 1..Len(s) |-> <<PCT, HexDigitU(s[i] \div 16), HexDigitU(s[i] % 16)>>])
EncAllL(s) == Concat([i \in 1..Len(s) |-> <<PCT, HexDigitL(s[i] \div 16), HexDigitL(s[i] % 16)>>])
Unreserved(b) == (b >= 48 /\ b <= 57) \/ (b >= 65 /\ b <= 90) \/ (b >= 97 /\ b <= 122) \/ b \in {45, 95, 46, 126}
EncNeeded(s) == Concat([i \in 1..Len(s) |-> IF Unreserved(s[i]) THEN <<s[i]>>
                                              ELSE <<PCT, HexDigitU(s[i] \div 16), HexDigitU(s[i] % 16)>>])

\* ---- UTF-8 well-formedness (Unicode 15 table 3-7), what String::from_utf8 accepts
Cont(s, i, lo, hi) == i <= Len(s) /\ s[i] >= lo /\ s[i] <= hi
RECURSIVE Utf8From(_, _)
Utf8From(s, i) ==
  IF i > Len(s) THEN TRUE
  ELSE LET b == s[i] IN
    IF b <= 127 THEN Utf8From(s, i + 1)
    ELSE IF b >= 194 /\ b <= 223 THEN Cont(s, i + 1, 128, 191) /\ Utf8From(s, i + 2)
    ELSE IF b = 224 THEN Cont(s, i + 1, 160, 191) /\ Cont(s, i + 2, 128, 191) /\ Utf8From(s, i + 3)
    ELSE IF b = 237 THEN Cont(s, i + 1, 128, 159) /\ Cont(s, i + 2, 128, 191) /\ Utf8From(s, i + 3)
    ELSE IF b >= 225 /\ b <= 239 THEN Cont(s, i + 1, 128, 191) /\ Cont(s, i + 2, 128, 191) /\ Utf8From(s, i + 3)
    ELSE IF b = 240 THEN Cont(s, i + 1, 144, 191) /\ Cont(s, i + 2, 128, 191) /\ Cont(s, i + 3, 128, 191) /\ Utf8From(s, i + 4)
    ELSE IF b >= 241 /\ b <= 243 THEN Cont(s, i + 1, 128, 191) /\ Cont(s, i + 2, 128, 191) /\ Cont(s, i + 3, 128, 191) /\ Utf8From(s, i + 4)
    ELSE IF b = 244 THEN Cont(s, i + 1, 128, 143) /\ Cont(s, i + 2, 128, 191) /\ Cont(s, i + 3, 128, 191) /\ Utf8From(s, i + 4)
    ELSE FALSE
Utf8Ok(s) == (\A i \in 1..Len(s) : s[i] < 128) \/ Utf8From(s, 1)            \* BAD (256) is in no range
IsLead(b) == b < 128 \/ b >= 192                    \* first byte of a character
\* remove the first k characters of a well-formed string; BAD-marked when there are fewer
\* (bytes of the character whose first byte is b; s is well-formed, as every Rust String is)
CharLen(b) == IF b < 128 THEN 1 ELSE IF b < 224 THEN 2 ELSE IF b < 240 THEN 3 ELSE 4
RECURSIVE CharOffset(_, _, _)
CharOffset(s, i, k) == IF k = 0 THEN i ELSE IF i > Len(s) THEN 0 ELSE CharOffset(s, i + CharLen(s[i]), k - 1)
DropChars(s, k) == LET i == CharOffset(s, 1, k) IN IF i = 0 THEN <<BAD>> ELSE Drop(s, i - 1)

\* ---- components
RECURSIVE SplitFrom(_, _)
SplitFrom(s, i) ==          \* components of s from position i on
  IF \E j \in i..Len(s) : s[j] = SLASH
  THEN LET j == CHOOSE j \in i..Len(s) : s[j] = SLASH /\ \A k \in i..(j - 1) : s[k] # SLASH
       IN <<SubSeq(s, i, j - 1)>> \o SplitFrom(s, j + 1)
  ELSE <<SubSeq(s, i, Len(s))>>
Split(s) == SplitFrom(s, 1)                   \* "" -> <<"">>, "a/" -> <<"a", "">>, "a//b" -> <<"a","","b">>
RECURSIVE LeadSlashes(_, _)
LeadSlashes(s, i) == IF i <= Len(s) /\ s[i] = SLASH THEN LeadSlashes(s, i + 1) ELSE i - 1
TrimLeadSlashes(s) == Drop(s, LeadSlashes(s, 1))
DOTDOT == <<DOT, DOT>>
INDEX_HTML == B("index.html")
INDEX_HTM  == B("index.htm")

\* ---- worlds.  A node: p = names from the top (each name a byte string), k = "d" | "f", id = content id.
\*      NoNode (k = "x") stands for every failing lookup (ENOENT, ENOTDIR, EINVAL for a NUL byte).
\*      A world is [root, nodes, at, inside, outside]: at = the nodes indexed by their path (a function, so
\*      that a lookup is a search in a sorted domain rather than a scan of the set), inside / outside = the
\*      content ids of the regular files below the root / elsewhere.
NoNode == [p |-> <<>>, k |-> "x", id |-> 0]
MkWorld(root, nodes) ==
  [root |-> root, nodes |-> nodes,
   at |-> [p \in {n.p : n \in nodes} |-> CHOOSE n \in nodes : n.p = p],
   inside  |-> {n.id : n \in {m \in nodes : m.k = "f" /\ IsPrefix(root, m.p)}},
   outside |-> {n.id : n \in {m \in nodes : m.k = "f" /\ ~IsPrefix(root, m.p)}}]
NodeAt(w, p) == IF p \in DOMAIN w.at THEN w.at[p] ELSE NoNode
Parent(p) == IF p = <<>> THEN <<>> ELSE SubSeq(p, 1, Len(p) - 1)        \* the parent of the top is the top
\* A path string as the kernel receives it: its components, or the fact that it contains a NUL byte
\* (abs: looked up from the top instead of the served directory - only the deviation JoinAbsolute sets it)
PathArg(s) == [nul |-> Has(s, NUL), comps |-> Split(s), abs |-> FALSE]
\* what the kernel does with the components of a relative path, starting at directory node `cur`.
\* Every component - also an empty one (repeated or trailing slash) and `.` - requires the node
\* reached so far to be a directory.
RECURSIVE Walk(_, _, _, _)
Walk(w, cur, comps, i) ==
  IF i > Len(comps) THEN cur
  ELSE IF cur.k # "d" THEN NoNode
  ELSE LET c == comps[i] IN
       IF c = <<>> \/ c = <<DOT>> THEN Walk(w, cur, comps, i + 1)
       ELSE IF c = DOTDOT THEN Walk(w, NodeAt(w, Parent(cur.p)), comps, i + 1)
       ELSE Walk(w, NodeAt(w, Append(cur.p, c)), comps, i + 1)
\* metadata()/File::open() of  <directory> "/" rel   (no symbolic links in a world)
OsLookupA(w, pa) == IF pa.nul THEN NoNode ELSE Walk(w, NodeAt(w, IF pa.abs THEN <<>> ELSE w.root), pa.comps, 1)
OsLookup(w, rel) == OsLookupA(w, PathArg(rel))

InsideNode(w, n) == n.k # "x" /\ IsPrefix(w.root, n.p)                  \* the root itself or below it

\* Lexical resolution of dot segments (RFC 3986 5.2.4 on a file-system path), independent of any guard
\* and of what exists: the name path from the top that the string designates.
RECURSIVE ResolveFrom(_, _, _)
ResolveFrom(cur, comps, i) ==
  IF i > Len(comps) THEN cur
  ELSE LET c == comps[i] IN
       IF c = <<>> \/ c = <<DOT>> THEN ResolveFrom(cur, comps, i + 1)
       ELSE IF c = DOTDOT THEN ResolveFrom(Parent(cur), comps, i + 1)
       ELSE ResolveFrom(Append(cur, c), comps, i + 1)
ResolveC(w, comps) == ResolveFrom(w.root, comps, 1)
Resolve(w, rel) == ResolveC(w, Split(rel))
InsideLex(w, rel) == IsPrefix(w.root, Resolve(w, rel))

\* ---- Path::extension: the part of the file name after its last dot; none when there is no dot or
\*      the only dot is the first character
LastDot(n) == IF Has(n, DOT) THEN CHOOSE i \in 1..Len(n) : n[i] = DOT /\ \A j \in (i + 1)..Len(n) : n[j] # DOT ELSE 0
Ext(n) == LET k == LastDot(n) IN
          IF k <= 1 \/ n = DOTDOT THEN [has |-> FALSE, e |-> <<>>] ELSE [has |-> TRUE, e |-> SubSeq(n, k + 1, Len(n))]

\* (deviation ExtFirstDot)
FirstDot(n) == IF Has(n, DOT) THEN CHOOSE i \in 1..Len(n) : n[i] = DOT /\ \A j \in 1..(i - 1) : n[j] # DOT ELSE 0
ExtD(dv, n) == IF "ExtFirstDot" \in dv
               THEN (LET k == FirstDot(n) IN IF k = 0 THEN [has |-> FALSE, e |-> <<>>] ELSE [has |-> TRUE, e |-> SubSeq(n, k + 1, Len(n))])
               ELSE Ext(n)
\* Unicode White_Space characters (UTF-8), for the deviation TrimNames
WhiteSpace == { <<9>>, <<10>>, <<11>>, <<12>>, <<13>>, <<32>>, <<194, 133>>, <<194, 160>>, <<225, 154, 128>>, <<226, 128, 168>>, <<226, 128, 169>>,
                <<226, 128, 175>>, <<226, 129, 159>>, <<227, 128, 128>> } \cup {<<226, 128, k>> : k \in 128..138}
IsSuffix(t, s) == Len(t) <= Len(s) /\ \A i \in 1..Len(t) : s[Len(s) - Len(t) + i] = t[i]
RECURSIVE TrimWs(_)
TrimWs(s) == IF \E t \in WhiteSpace : IsPrefix(t, s) THEN TrimWs(Drop(s, Len(CHOOSE t \in WhiteSpace : IsPrefix(t, s))))
             ELSE IF \E t \in WhiteSpace : IsSuffix(t, s) THEN TrimWs(SubSeq(s, 1, Len(s) - Len(CHOOSE t \in WhiteSpace : IsSuffix(t, s))))
             ELSE s

\* ---- MIME types by extension (IANA media types; anything else is application/octet-stream)
OCTET == "application/octet-stream"
MimeTable ==
  << <<B("css"), "text/css">>, <<B("html"), "text/html">>, <<B("htm"), "text/html">>, <<B("js"), "text/javascript">>,
     <<B("mjs"), "text/javascript">>, <<B("txt"), "text/plain">>, <<B("bmp"), "image/bmp">>, <<B("gif"), "image/gif">>,
     <<B("jpeg"), "image/jpeg">>, <<B("jpg"), "image/jpeg">>, <<B("png"), "image/png">>, <<B("webp"), "image/webp">>,
     <<B("svg"), "image/svg+xml">>, <<B("ico"), "image/vnd.microsoft.icon">>, <<B("json"), "application/json">>,
     <<B("pdf"), "application/pdf">>, <<B("zip"), "application/zip">>, <<B("mp4"), "video/mp4">>, <<B("ogv"), "video/ogg">>,
     <<B("webm"), "video/webm">>, <<B("ttf"), "font/ttf">>, <<B("otf"), "font/otf">>, <<B("woff"), "font/woff">>,
     <<B("woff2"), "font/woff2">> >>
Mime(e) == LET S == {i \in 1..Len(MimeTable) : MimeTable[i][1] = e} IN
           IF S = {} THEN OCTET ELSE MimeTable[CHOOSE i \in S : TRUE][2]

(***************************************************************************)
(* 2. The handler model (transcribed from the code; dv = set of deviations) *)
(*                                                                         *)
(* Each handler is written in two stages so that TLC can share work: the   *)
(* part that does not touch the file system (strip the route prefix,       *)
(* decode, guard, trim, build the path strings: ...Prep) and the part that  *)
(* does (metadata / open / read: ...On).  HandleD composes them.            *)
(***************************************************************************)
\* An answer, as the harness observes it: status, content id of the body (0 = not a file of the
\* world), Content-Type ("" = header absent), Location bytes, canary = bytes from outside the root.
\* (ctb = the media type of the Content-Type without parameters, lower case - what the harness projects for the judge)
Answer(st, id, ct, loc, w) == [st |-> st, id |-> id, ct |-> ct, ctb |-> ct, loc |-> loc, canary |-> id \in w.outside]
A404(w) == Answer(404, 0, "text/html", <<>>, w)
Panic(w) == Answer(0, 0, "", <<>>, w)

HasDotDot(s) == \E i \in 1..(Len(s) - 1) : s[i] = DOT /\ s[i + 1] = DOT
Guard(s) == HasDotDot(s) \/ Has(s, COLON)            \* request_path.contains("..") || contains(':')

IndexFilesD(dv) == IF "PreferIndexHtm" \in dv THEN <<INDEX_HTM, INDEX_HTML>> ELSE <<INDEX_HTML, INDEX_HTM>>

\* route.rs try_find_path, first half.  t = "none": return None before any file-system call;
\* "index": the path is empty or ends in `/` - a1, a2 are <dir>/<path><index file>; "plain": a1 = <dir>/<path>
\* (a2 is only used by the deviation NoRedirect)
NoArg == [nul |-> TRUE, comps |-> <<>>, abs |-> FALSE]
FindPrep(t, a1, a2) == [t |-> t, a1 |-> a1, a2 |-> a2]
TryFindPrepD(dv, reqPath) ==
  LET d0 == PercentDecodeD(dv, reqPath)
      d == IF "TrimNames" \in dv /\ Utf8Ok(d0) THEN TrimWs(d0) ELSE d0 IN
  IF ~Utf8Ok(d) THEN FindPrep("none", NoArg, NoArg)                       \* percent_decode()? / from_utf8().ok()?
  ELSE IF (IF "GuardBeforeDecode" \in dv THEN Guard(reqPath)
           ELSE IF "GuardPrefixOnly" \in dv THEN IsPrefix(DOTDOT, TrimLeadSlashes(d)) \/ Has(d, COLON)
           ELSE Guard(d))
       THEN FindPrep("none", NoArg, NoArg)                                 \* "Avoid path traversal exploits"
  ELSE LET d2 == IF "DecodeTwice" \in dv /\ Utf8Ok(PercentDecode(d)) THEN PercentDecode(d) ELSE d     \* decoded again after the guard
           q == TrimLeadSlashes(d2)
           ix == IndexFilesD(dv) IN
    IF q = <<>> \/ Last(q) = SLASH
    THEN FindPrep("index", PathArg(q \o ix[1]), PathArg(q \o ix[2]))
    ELSE FindPrep("plain", PathArg(q), IF "NoRedirect" \in dv THEN PathArg(q \o <<SLASH>> \o ix[1]) ELSE NoArg)

\* second half: [t |-> "none" | "dir" | "file", node]
Located(t, n) == [t |-> t, node |-> n]
TryFindOnD(dv, w, fp) ==
  IF fp.t = "none" THEN Located("none", NoNode)
  ELSE IF fp.t = "index"
  THEN LET n1 == OsLookupA(w, fp.a1) IN
       IF n1.k = "f" THEN Located("file", n1)
       ELSE LET n2 == OsLookupA(w, fp.a2) IN
            IF n2.k = "f" THEN Located("file", n2) ELSE Located("none", NoNode)
  ELSE LET n == OsLookupA(w, fp.a1) IN
       IF n.k = "f" THEN Located("file", n)
       ELSE IF n.k = "d" THEN
            (IF "NoRedirect" \in dv
             THEN LET m == OsLookupA(w, fp.a2) IN IF m.k = "f" THEN Located("file", m) ELSE Located("dir", n)
             ELSE Located("dir", n))
       ELSE Located("none", NoNode)
TryFindPathD(dv, w, reqPath) == TryFindOnD(dv, w, TryFindPrepD(dv, reqPath))

\* a located file is read and labelled by the extension of its (canonical) name;
\* noExt = what the caller does for a name without extension: the library sends no Content-Type,
\* the server application/octet-stream
FileAnswerD(dv, w, n, noExt) == LET e == ExtD(dv, Last(n.p)) IN Answer(200, n.id, IF e.has THEN Mime(e.e) ELSE noExt, <<>>, w)
FileAnswer(w, n, noExt) == FileAnswerD(Dev, w, n, noExt)
Respond(w, l, uri, noExt) ==
  IF l.t = "dir" THEN Answer(301, 0, "", uri \o <<SLASH>>, w)
  ELSE IF l.t = "file" THEN FileAnswer(w, l.node, noExt)
  ELSE A404(w)

\* handlers.rs serve_dir: route.strip_suffix('*'), uri.strip_prefix(that) or the whole uri
ServeDirStrip(route, uri) ==
  LET pre == IF route # <<>> /\ Last(route) = STAR THEN SubSeq(route, 1, Len(route) - 1) ELSE route IN
  IF IsPrefix(pre, uri) THEN Drop(uri, Len(pre)) ELSE uri
RECURSIVE StripAll(_, _)
StripAll(pre, uri) == IF pre # <<>> /\ IsPrefix(pre, uri) THEN StripAll(pre, Drop(uri, Len(pre))) ELSE uri
ServeDirStripD(dv, route, uri) ==
  IF "StripAllPrefix" \in dv
  THEN StripAll(IF route # <<>> /\ Last(route) = STAR THEN SubSeq(route, 1, Len(route) - 1) ELSE route, uri)
  ELSE ServeDirStrip(route, uri)

\* static.rs directory_handler: one character of the uri is removed per character of `matches` before its first `*`
CharsBeforeStar(m) == LET S == {i \in 1..Len(m) : m[i] = STAR}
                          n == IF S = {} THEN Len(m) ELSE (CHOOSE i \in S : \A j \in S : i <= j) - 1
                      IN Cardinality({i \in 1..n : IsLead(m[i])})
DirHandlerStripD(dv, matches, uri) ==
  IF "StripAllDirectory" \in dv
  THEN LET S == {i \in 1..Len(matches) : matches[i] = STAR}
           pre == IF S = {} THEN matches ELSE SubSeq(matches, 1, (CHOOSE i \in S : \A j \in S : i <= j) - 1) IN StripAll(pre, uri)
  ELSE IF "StripByBytes" \in dv THEN (IF CharsBeforeStar(matches) > Len(uri) THEN <<BAD>> ELSE Drop(uri, CharsBeforeStar(matches)))
  ELSE DropChars(uri, CharsBeforeStar(matches))

\* handlers.rs serve_as_file_path: the literal uri below the directory; File::open + read_to_end
\* (a directory opens but cannot be read: 404).  Prep: [t |-> "none" | "plain", a1]
FilePathPrepD(dv, uri) ==
  LET fp == IF uri # <<>> /\ uri[1] = SLASH THEN Tail(uri) ELSE uri IN
  IF "FilePathNoCheck" \notin dv /\ Guard(fp) THEN FindPrep("none", NoArg, NoArg)
  ELSE IF "JoinAbsolute" \in dv /\ fp # <<>> /\ fp[1] = SLASH THEN FindPrep("plain", [PathArg(fp) EXCEPT !.abs = TRUE], NoArg)
  ELSE FindPrep("plain", PathArg(fp), NoArg)

\* handlers.rs serve_file: a configured path (here: relative to the root), whatever the request
ServeFileD(dv, w, cfgRel) == LET n == OsLookup(w, cfgRel) IN IF n.k = "f" THEN FileAnswer(w, n, "") ELSE A404(w)

HandlerNames == {"serve_dir", "directory", "file_path"}
HandlePrepD(dv, h, route, uri) ==
  IF h = "serve_dir" THEN TryFindPrepD(dv, ServeDirStripD(dv, route, uri))
  ELSE IF h = "directory"
  THEN LET s == DirHandlerStripD(dv, route, uri) IN
       IF ~Utf8Ok(s) THEN FindPrep("panic", NoArg, NoArg)      \* String::remove(0) on an empty string / inside a character
       ELSE TryFindPrepD(dv, s)
  ELSE FilePathPrepD(dv, uri)
HandleOnD(dv, h, w, prep, uri) ==
  IF h = "serve_dir" THEN Respond(w, TryFindOnD(dv, w, prep), uri, "")
  ELSE IF h = "directory" THEN (IF prep.t = "panic" THEN Panic(w) ELSE Respond(w, TryFindOnD(dv, w, prep), uri, OCTET))
  ELSE IF prep.t = "none" THEN A404(w)
  ELSE LET n == OsLookupA(w, prep.a1) IN IF n.k = "f" THEN FileAnswer(w, n, "") ELSE A404(w)
HandleD(dv, h, w, route, uri) == HandleOnD(dv, h, w, HandlePrepD(dv, h, route, uri), uri)
Handle(h, w, route, uri) == HandleD(Dev, h, w, route, uri)
ServeDirD(dv, w, route, uri) == HandleD(dv, "serve_dir", w, route, uri)
DirectoryHandlerD(dv, w, matches, uri) == HandleD(dv, "directory", w, matches, uri)
ServeAsFilePathD(dv, w, uri) == HandleD(dv, "file_path", w, <<>>, uri)

(***************************************************************************)
(* 3. The property                                                         *)
(***************************************************************************)
\* 3a. What the property text admits as the answer to a request (DESIGN 5a).  An expectation is
\*     [k, id, ct] plus an alternative [ak, aid, act]:
\*       "file"     200, the body is exactly content id, Content-Type ct ("?" = a name without extension:
\*                  no Content-Type or application/octet-stream, the text does not choose)
\*       "redirect" 301, Location = request uri followed by "/"
\*       "notfound" 404 and no file content (clean path naming nothing / a directory without index file)
\*       "refused"  any 4xx and no file content: the text only says that nothing is served for paths with
\*                  dot-dot segments, NUL bytes, malformed escapes ... , not with which status
\*       "none"     no alternative
Exp(k, id, ct, ak, aid, act) == [k |-> k, id |-> id, ct |-> ct, ak |-> ak, aid |-> aid, act |-> act]
One(k, id, ct) == Exp(k, id, ct, "none", 0, "")
CtOf(n) == LET e == Ext(Last(n.p)) IN IF e.has THEN Mime(e.e) ELSE "?"

\* serve_dir and directory routes: rel = the request path after the route prefix; decoded once.
\* World-independent part: [t |-> "refused" | "index" | "plain", g = `..` or `:` present, a1, a2]
ExpectDecodingPrep(rel) ==
  LET d == PercentDecode(rel) IN
  IF ~Utf8Ok(d) \/ Has(d, NUL) THEN [t |-> "refused", g |-> FALSE, a1 |-> NoArg, a2 |-> NoArg]
  ELSE LET q == TrimLeadSlashes(d) IN
    IF q = <<>> \/ Last(q) = SLASH
    THEN [t |-> "index", g |-> Guard(d), a1 |-> PathArg(q \o INDEX_HTML), a2 |-> PathArg(q \o INDEX_HTM)]
    ELSE [t |-> "plain", g |-> Guard(d), a1 |-> PathArg(q), a2 |-> NoArg]
\* the redirect / index rule
RuleLookup(w, ep) ==
  IF ep.t = "index"
  THEN LET n1 == OsLookupA(w, ep.a1) IN
       IF n1.k = "f" THEN [k |-> "file", n |-> n1]
       ELSE LET n2 == OsLookupA(w, ep.a2) IN
            IF n2.k = "f" THEN [k |-> "file", n |-> n2] ELSE [k |-> "notfound", n |-> NoNode]
  ELSE LET n == OsLookupA(w, ep.a1) IN
       IF n.k = "f" THEN [k |-> "file", n |-> n]
       ELSE IF n.k = "d" THEN [k |-> "redirect", n |-> n] ELSE [k |-> "notfound", n |-> NoNode]
ExpectDecodingOn(w, ep) ==
  IF ep.t = "refused" THEN One("refused", 0, "")
  ELSE LET r == RuleLookup(w, ep) IN
    IF ~ep.g
    THEN One(r.k, r.n.id, IF r.k = "file" THEN CtOf(r.n) ELSE "")
    ELSE \* `..` or `:` somewhere: nothing has to be served; serving what the path designates is tolerated
         \* when that lies inside the root (names such as `...`, `a..b`, `x:y`, or `a/../index.html`)
         IF r.k # "notfound" /\ InsideNode(w, r.n)
         THEN Exp("refused", 0, "", r.k, r.n.id, IF r.k = "file" THEN CtOf(r.n) ELSE "")
         ELSE One("refused", 0, "")
ExpectDecoding(w, rel) == ExpectDecodingOn(w, ExpectDecodingPrep(rel))

\* serve_as_file_path: rel = the uri without its leading slash, taken literally; no index rule, no redirect
ExpectLiteralPrep(rel) == [g |-> Guard(rel), a1 |-> PathArg(rel)]
ExpectLiteralOn(w, lp) ==
  IF lp.a1.nul THEN One("refused", 0, "")
  ELSE LET n == OsLookupA(w, lp.a1) IN
    IF ~lp.g
    THEN (IF n.k = "f" THEN One("file", n.id, CtOf(n))
          ELSE IF n.k = "d" THEN One("refused", 0, "") ELSE One("notfound", 0, ""))
    ELSE IF n.k = "f" /\ InsideNode(w, n) THEN Exp("refused", 0, "", "file", n.id, CtOf(n)) ELSE One("refused", 0, "")
ExpectLiteral(w, rel) == ExpectLiteralOn(w, ExpectLiteralPrep(rel))
\* serve_file: "serve the specified file, or a default error 404 if not found"
ExpectFixed(w, cfgRel) == LET n == OsLookup(w, cfgRel) IN IF n.k = "f" THEN One("file", n.id, CtOf(n)) ELSE One("notfound", 0, "")

CtOk(ect, gct) == IF ect = "?" THEN gct \in {"", OCTET} ELSE gct = ect
ConformsOne(k, id, ct, uri, g) ==
  IF k = "file" THEN g.st = 200 /\ g.id = id /\ CtOk(ct, g.ct)
  ELSE IF k = "redirect" THEN g.st = 301 /\ g.loc = uri \o <<SLASH>> /\ g.id = 0
  ELSE IF k = "notfound" THEN g.st = 404 /\ g.id = 0
  ELSE IF k = "refused" THEN g.st >= 400 /\ g.st <= 499 /\ g.id = 0
  ELSE FALSE
Conforms(e, uri, g) == ~g.canary /\ (ConformsOne(e.k, e.id, e.ct, uri, g) \/ ConformsOne(e.ak, e.aid, e.act, uri, g))

\* 3b. Routes: a literal prefix followed by `*`, or a literal without wildcard (which only matches itself).
HasStar(route) == route # <<>> /\ Last(route) = STAR
Prefix(route) == IF HasStar(route) THEN SubSeq(route, 1, Len(route) - 1) ELSE route
Expect(h, w, rel) == IF h = "file_path" THEN ExpectLiteral(w, rel) ELSE ExpectDecoding(w, rel)
STATIC_NOSTAR == B("/static")
RouteList == << B("/static/*"), B("/*"), <<SLASH, 100, 195, 188, STAR>>, B("/s*") >>    \* the third is "/dü*": a two-byte character ends the prefix;
                                                                                        \* the fourth an ASCII prefix without final slash (the harness uses all four)
RouteSet == {RouteList[i] : i \in 1..RouteN}
\* the uri on which handler h sees relative path rel under `route` (serve_as_file_path takes the whole uri)
UriFor(h, route, rel) == IF h = "file_path" THEN <<SLASH>> \o rel ELSE Prefix(route) \o rel
\* (handler, route) pairs of the bound
Targets == {<<h, route>> : h \in {"serve_dir", "directory"}, route \in RouteSet} \cup {<<"file_path", <<>>>>}

\* 3c. The properties of a handler model on one request (rel), for all targets and a sequence of worlds ws
\* what each target hands to try_find_path is the relative path, whatever the route prefix
StripAt(dv, h, route, uri) == IF h = "serve_dir" THEN ServeDirStripD(dv, route, uri) ELSE DirHandlerStripD(dv, route, uri)
PrefixRuleAt(rel) ==
  \A route \in RouteSet : \A h \in {"serve_dir", "directory"} : StripAt(Dev, h, route, Prefix(route) \o rel) = rel

\* The answers of all targets in world w.  By the prefix rule (checked in the same state) every decoding
\* target hands `rel` to try_find_path, so fp = TryFindPrepD(Dev, rel) and one file-system lookup serve all of
\* them; lp = FilePathPrepD(Dev, "/" rel).  SharedIsHandle checks this factoring against HandleD itself.
NoExtOf(h) == IF h = "directory" THEN OCTET ELSE ""
AnswerAt(w, tg, rel, loc, lp) ==
  IF tg[1] = "file_path" THEN HandleOnD(Dev, "file_path", w, lp, <<SLASH>> \o rel)
  ELSE Respond(w, loc, Prefix(tg[2]) \o rel, NoExtOf(tg[1]))
SharedIsHandleAt(ws, rel) ==
  LET fp == TryFindPrepD(Dev, rel)
      lp == FilePathPrepD(Dev, <<SLASH>> \o rel) IN
  \A wi \in DOMAIN ws : LET loc == TryFindOnD(Dev, ws[wi], fp) IN
     \A tg \in Targets : AnswerAt(ws[wi], tg, rel, loc, lp) = Handle(tg[1], ws[wi], tg[2], UriFor(tg[1], tg[2], rel))

\* no answer carries content from outside the root; a 200 carries a regular file below the root
ConfinedAnswer(w, a) == ~a.canary /\ (a.st = 200 => a.id \in w.inside)
ConfinementAt(ws, rel) ==
  LET fp == TryFindPrepD(Dev, rel)
      lp == FilePathPrepD(Dev, <<SLASH>> \o rel) IN
  \A wi \in DOMAIN ws : LET loc == TryFindOnD(Dev, ws[wi], fp) IN
     \A tg \in Targets : ConfinedAnswer(ws[wi], AnswerAt(ws[wi], tg, rel, loc, lp))

\* the guard of try_find_path is sound: a decoded path that passes it resolves - lexically, whatever exists -
\* inside the root, and when the lookup succeeds the node found is the one the string designates
GuardSoundAt(ws, rel) ==
  LET d == PercentDecode(rel) IN
  (Utf8Ok(d) /\ ~Guard(d)) =>
     LET pa == PathArg(TrimLeadSlashes(d)) IN
     \A wi \in DOMAIN ws :
        LET w == ws[wi]
            lex == ResolveC(w, pa.comps) IN
        /\ IsPrefix(w.root, lex)
        /\ LET n == OsLookupA(w, pa) IN n.k # "x" => (n.p = lex /\ InsideNode(w, n))

\* the handler model answers what the property text admits
ModelConformsAt(ws, rel) ==
  LET fp == TryFindPrepD(Dev, rel)
      lp == FilePathPrepD(Dev, <<SLASH>> \o rel)
      ed == ExpectDecodingPrep(rel)
      el == ExpectLiteralPrep(rel) IN
  \A wi \in DOMAIN ws :
     LET w == ws[wi]
         loc == TryFindOnD(Dev, w, fp)
         xd == ExpectDecodingOn(w, ed)
         xl == ExpectLiteralOn(w, el) IN
     \A tg \in Targets :
        Conforms(IF tg[1] = "file_path" THEN xl ELSE xd, UriFor(tg[1], tg[2], rel), AnswerAt(w, tg, rel, loc, lp))

\* Confinement and ModelConforms in one pass (same formulas, the lookups shared); used by the deepest configuration
ConfinedAndConformsAt(ws, rel) ==
  LET fp == TryFindPrepD(Dev, rel)
      lp == FilePathPrepD(Dev, <<SLASH>> \o rel)
      ed == ExpectDecodingPrep(rel)
      el == ExpectLiteralPrep(rel) IN
  \A wi \in DOMAIN ws :
     LET w == ws[wi]
         loc == TryFindOnD(Dev, w, fp)
         xd == ExpectDecodingOn(w, ed)
         xl == ExpectLiteralOn(w, el) IN
     \A tg \in Targets :
        LET a == AnswerAt(w, tg, rel, loc, lp) IN
        /\ ConfinedAnswer(w, a)
        /\ Conforms(IF tg[1] = "file_path" THEN xl ELSE xd, UriFor(tg[1], tg[2], rel), a)

CleanName(nm) == ~HasSub(nm, DOTDOT) /\ ~Has(nm, COLON)
\* 3e. Two-level judging.  Expect* / Conforms above is the strict reading (today's choices included: 404 for whatever
\*     is not served, Location spelled exactly uri "/", the MIME table's own strings, `.`/empty segments and encoded
\*     slashes resolved like the operating system does).  The STATEMENT of the property demands less; Demand* / JudgeOk
\*     below is that statement, policy-free, and only it decides between "violation" and "held":
\*       - never bytes from outside the root (the canary marker), whatever the request;
\*       - a clean file requested by its path - the names joined by single slashes, every name spelled with URI-safe
\*         characters and/or escapes and decoding ONCE to the name (literally, undecoded, for serve_as_file_path) - is
\*         answered 200 with exactly its contents and, when its extension is in the table, a media type registered for
\*         that extension (parameters such as a charset are ignored; the accepted aliases are listed in MimeAlts);
\*       - a clean directory requested that way without trailing slash is answered 301 with a Location whose path is the
\*         request path followed by "/" (an origin in front and the request's query behind are admitted);
\*       - with one trailing slash (or the empty path: the root) it is answered with index.html, else index.htm, else 404.
\*     Everything else the statement leaves open (which status refuses a dot-dot path, what a missing file, a `.` segment,
\*     a doubled or encoded slash, a raw space, an unknown extension get): an answer that passes JudgeOk but not Conforms
\*     is reported as SPEC-DRIFT, never as a violation.
PCharRaw(b) == Unreserved(b) \/ b \in {33, 36, 38, 39, 40, 41, 42, 43, 44, 59, 61, 58, 64}       \* RFC 3986 pchar without `%`
RECURSIVE WellSpelledFrom(_, _)
WellSpelledFrom(s, i) ==
  IF i > Len(s) THEN TRUE
  ELSE IF s[i] = PCT THEN (IF i + 2 <= Len(s) THEN Hex(s[i + 1]) # BAD /\ Hex(s[i + 2]) # BAD /\ WellSpelledFrom(s, i + 3) ELSE FALSE)
  ELSE PCharRaw(s[i]) /\ WellSpelledFrom(s, i + 1)
WellSpelled(s) == s # <<>> /\ WellSpelledFrom(s, 1)
\* media types accepted for an extension of the table: its own entry and the registered / customary aliases
MimeAlts ==
  << <<B("js"), {"application/javascript", "application/x-javascript"}>>, <<B("mjs"), {"application/javascript", "application/x-javascript"}>>,
     <<B("ico"), {"image/x-icon"}>>, <<B("bmp"), {"image/x-ms-bmp"}>>, <<B("zip"), {"application/x-zip-compressed"}>>,
     <<B("ttf"), {"application/x-font-ttf", "application/font-sfnt", "font/sfnt"}>>, <<B("otf"), {"application/x-font-opentype", "application/font-sfnt", "font/sfnt"}>>,
     <<B("woff"), {"application/font-woff"}>>, <<B("woff2"), {"application/font-woff2"}>>, <<B("ogv"), {"application/ogg"}>>,
     <<B("svg"), {"image/svg"}>>, <<B("json"), {"text/json"}>>, <<B("jpg"), {"image/jpg"}>>, <<B("jpeg"), {"image/jpg"}>> >>
KnownExt(e) == \E i \in 1..Len(MimeTable) : MimeTable[i][1] = e
AcceptedTypes(e) == {Mime(e)} \cup UNION {MimeAlts[i][2] : i \in {j \in 1..Len(MimeAlts) : MimeAlts[j][1] = e}}
\* a demand: k = "f" (serve file id; x = its extension when the table knows it, else <<>> = type not constrained),
\*           "r" (redirect), "n" (404, no file content), "-" (the statement is silent)
NoDemand == [k |-> "-", id |-> 0, x |-> <<>>]
FileDemand(n) == LET e == Ext(Last(n.p)) IN [k |-> "f", id |-> n.id, x |-> IF e.has /\ KnownExt(e.e) THEN e.e ELSE <<>>]
IndexDemand(w, d) ==
  LET ih == NodeAt(w, Append(d.p, INDEX_HTML))
      im == NodeAt(w, Append(d.p, INDEX_HTM)) IN
  IF ih.k = "f" THEN FileDemand(ih) ELSE IF im.k = "f" THEN FileDemand(im) ELSE [k |-> "n", id |-> 0, x |-> <<>>]
PlainName(nm) == CleanName(nm) /\ ~Has(nm, NUL) /\ ~Has(nm, SLASH) /\ nm # <<DOT>> /\ nm # <<>>
\* (two stages, like the handler model: the part that does not depend on the world is computed once per request)
NoNames == [t |-> "none", names |-> <<>>, trailing |-> FALSE]
DemandDecodingPrep(rel) ==
  IF rel = <<>> THEN [t |-> "root", names |-> <<>>, trailing |-> TRUE]
  ELSE LET segs == Split(rel)
           trailing == Len(segs) >= 2 /\ Last(segs) = <<>>
           body == IF trailing THEN SubSeq(segs, 1, Len(segs) - 1) ELSE segs IN
       IF \E i \in 1..Len(body) : ~WellSpelled(body[i]) THEN NoNames
       ELSE LET names == [i \in 1..Len(body) |-> PercentDecode(body[i])] IN
            IF \E i \in 1..Len(names) : ~Utf8Ok(names[i]) \/ ~PlainName(names[i]) THEN NoNames
            ELSE [t |-> "names", names |-> names, trailing |-> trailing]
DemandOn(w, dp) ==
  IF dp.t = "none" THEN NoDemand
  ELSE IF dp.t = "root" THEN IndexDemand(w, NodeAt(w, w.root))
  ELSE LET n == NodeAt(w, w.root \o dp.names) IN
       IF n.k = "f" /\ ~dp.trailing THEN FileDemand(n)
       ELSE IF n.k = "d" /\ ~dp.trailing THEN [k |-> "r", id |-> 0, x |-> <<>>]
       ELSE IF n.k = "d" THEN IndexDemand(w, n)
       ELSE NoDemand
DemandDecoding(w, rel) == DemandOn(w, DemandDecodingPrep(rel))
\* serve_as_file_path: the names literally, files only
DemandLiteralPrep(rel) ==
  LET segs == Split(rel) IN
  IF rel = <<>> \/ \E i \in 1..Len(segs) : ~PlainName(segs[i]) THEN NoNames ELSE [t |-> "lit", names |-> segs, trailing |-> FALSE]
DemandLiteralOn(w, lp) ==
  IF lp.t = "none" THEN NoDemand
  ELSE LET n == NodeAt(w, w.root \o lp.names) IN IF n.k = "f" THEN FileDemand(n) ELSE NoDemand
DemandLiteral(w, rel) == DemandLiteralOn(w, DemandLiteralPrep(rel))
\* Under a route whose literal prefix does not end in a slash (`/pub*`) the path of a file is the prefix, ONE slash, the
\* names: the relative path then starts with that slash.  (The bare prefix itself - the root "without trailing slash"?
\* - is left open.)
DemandDecodingSPrep(rel) ==
  IF rel = <<>> THEN NoNames
  ELSE IF rel[1] = SLASH THEN DemandDecodingPrep(Tail(rel))
  ELSE DemandDecodingPrep(rel)
DemandDecodingS(w, rel) == DemandOn(w, DemandDecodingSPrep(rel))
Slashless(route) == Prefix(route) = <<>> \/ Last(Prefix(route)) # SLASH
Demand(h, w, route, rel) ==
  IF h = "file_path" THEN DemandLiteral(w, rel)
  ELSE IF Slashless(route) THEN DemandDecodingS(w, rel) ELSE DemandDecoding(w, rel)

HTTP_ == B("http://")
HTTPS_ == B("https://")
StripOrigin(loc) ==
  LET k == IF IsPrefix(HTTP_, loc) THEN Len(HTTP_) ELSE IF IsPrefix(HTTPS_, loc) THEN Len(HTTPS_) ELSE 0 IN
  IF k = 0 THEN loc
  ELSE IF \E j \in (k + 1)..Len(loc) : loc[j] = SLASH
       THEN Drop(loc, (CHOOSE j \in (k + 1)..Len(loc) : loc[j] = SLASH /\ \A i \in (k + 1)..(j - 1) : loc[i] # SLASH) - 1)
       ELSE <<>>
LocOk(uri, q, loc) == LET l == StripOrigin(loc) IN l = uri \o <<SLASH>> \/ (q # <<>> /\ l = uri \o <<SLASH, 63>> \o q)
CtJudge(x, ctb) == x = <<>> \/ ctb \in AcceptedTypes(x)
\* g = an answer [st, id, ct, ctb, loc, canary]; q = the query string the request carried
JudgeOk(dm, uri, q, g) ==
  /\ ~g.canary
  /\ IF dm.k = "f" THEN g.st = 200 /\ g.id = dm.id /\ CtJudge(dm.x, g.ctb)
     ELSE IF dm.k = "r" THEN g.st = 301 /\ LocOk(uri, q, g.loc)
     ELSE IF dm.k = "n" THEN g.st = 404 /\ g.id = 0
     ELSE TRUE
\* the handler model meets the statement (the strict reading implies the statement on the model)
ModelJudgedAt(ws, rel) ==
  LET fp == TryFindPrepD(Dev, rel)
      lp == FilePathPrepD(Dev, <<SLASH>> \o rel)
      pd == DemandDecodingPrep(rel)
      ps == IF rel # <<>> /\ rel[1] # SLASH THEN pd ELSE DemandDecodingSPrep(rel)
      pl == DemandLiteralPrep(rel) IN
  \A wi \in DOMAIN ws :
     LET w == ws[wi]
         loc == TryFindOnD(Dev, w, fp)
         dd == DemandOn(w, pd)
         ds == DemandOn(w, ps)
         dl == DemandLiteralOn(w, pl) IN
     \A tg \in Targets : JudgeOk(IF tg[1] = "file_path" THEN dl ELSE IF Slashless(tg[2]) THEN ds ELSE dd,
                                  UriFor(tg[1], tg[2], rel), <<>>, AnswerAt(w, tg, rel, loc, lp))

\* 3d. The positive half and the redirect / index rule, per world (quantified over its nodes, not over requests)
RelNames(w, n) == SubSeq(n.p, Len(w.root) + 1, Len(n.p))
CleanNode(w, n) == IsPrefix(w.root, n.p) /\ Len(n.p) > Len(w.root) /\ \A i \in 1..Len(RelNames(w, n)) : CleanName(RelNames(w, n)[i])
\* spellings of a path under which a decoding handler must find it: percent-encoded where needed (the
\* library's own PercentEncode applied to each name), every byte encoded (upper / lower case hex), and the
\* raw bytes when no name contains `%`
Spellings(names) ==
  { JoinSlash([i \in 1..Len(names) |-> EncNeeded(names[i])]),
    JoinSlash([i \in 1..Len(names) |-> EncAllU(names[i])]),
    JoinSlash([i \in 1..Len(names) |-> EncAllL(names[i])]) }
  \cup (IF \A i \in 1..Len(names) : PCT \notin Range(names[i]) THEN {JoinSlash(names)} ELSE {})

IsFileAnswer(a, n, noExts) ==
  a.st = 200 /\ a.id = n.id /\ ~a.canary /\
  LET e == Ext(Last(n.p)) IN IF e.has THEN a.ct = Mime(e.e) ELSE a.ct \in noExts

PositiveHalf(w) ==
  \A n \in {m \in w.nodes : m.k = "f" /\ CleanNode(w, m)} :
     /\ \A sp \in Spellings(RelNames(w, n)) : \A route \in RouteSet : \A h \in {"serve_dir", "directory"} :
           IsFileAnswer(Handle(h, w, route, Prefix(route) \o sp), n, {"", OCTET})
     /\ IsFileAnswer(Handle("file_path", w, <<>>, <<SLASH>> \o JoinSlash(RelNames(w, n))), n, {"", OCTET})
     /\ IsFileAnswer(ServeFileD(Dev, w, JoinSlash(RelNames(w, n))), n, {"", OCTET})

Child(w, d, name) == NodeAt(w, Append(d.p, name))
RedirectIndexRule(w) ==
  \A d \in {m \in w.nodes : m.k = "d" /\ (m.p = w.root \/ CleanNode(w, m))} :
    \A sp \in (IF d.p = w.root THEN {<<>>} ELSE Spellings(RelNames(w, d))) : \A route \in RouteSet : \A h \in {"serve_dir", "directory"} :
      LET uri == Prefix(route) \o sp
          a1 == Handle(h, w, route, uri)                           \* without trailing slash
          a2 == Handle(h, w, route, uri \o <<SLASH>>)              \* with it
          ih == Child(w, d, INDEX_HTML)
          im == Child(w, d, INDEX_HTM) IN
      /\ (d.p # w.root) => (a1.st = 301 /\ a1.loc = uri \o <<SLASH>>)
      /\ IF ih.k = "f" THEN a2.st = 200 /\ a2.id = ih.id /\ a2.ct = "text/html"
         ELSE IF im.k = "f" THEN a2.st = 200 /\ a2.id = im.id /\ a2.ct = "text/html"
         ELSE a2.st = 404 /\ a2.id = 0
\* a route without wildcard matches only itself and serves the index of the root
NoWildcardRule(w) ==
  \A h \in {"serve_dir", "directory"} :
    LET a == Handle(h, w, STATIC_NOSTAR, STATIC_NOSTAR) IN Conforms(ExpectDecoding(w, <<>>), STATIC_NOSTAR, a)

(***************************************************************************)
(* 4. Worlds and the catalogue of segment spellings                        *)
(***************************************************************************)
N(s) == B(s)
UU == <<195, 188>>                                     \* the two bytes of U+00FC
BSL == <<92>>                                          \* a backslash
AboveRoot == <<N("l1"), N("l2"), N("l3"), N("l4"), N("base")>>
RootPath == Append(AboveRoot, N("root"))
CanaryId == 900
TwinId == 901
Dn(names) == [p |-> RootPath \o names, k |-> "d", id |-> 0]
Fn(names, id) == [p |-> RootPath \o names, k |-> "f", id |-> id]
Surround ==        \* the top, the chain of directories down to the root, and what lies beside the root
  {[p |-> SubSeq(RootPath, 1, i), k |-> "d", id |-> 0] : i \in 0..Len(RootPath)}
  \cup {[p |-> Append(AboveRoot, N("canary.txt")), k |-> "f", id |-> CanaryId],
        [p |-> Append(AboveRoot, N("index.html")), k |-> "f", id |-> TwinId]}
World(inner) == MkWorld(RootPath, Surround \cup inner)

\* W1: nested directories, index.html at the root and below, a directory with only index.htm, one file per MIME type
W1 == World({
  Fn(<<N("index.html")>>, 1), Dn(<<N("a")>>), Fn(<<N("a"), N("index.html")>>, 2), Dn(<<N("a"), N("a")>>),
  Fn(<<N("a"), N("a"), N("noext")>>, 3), Fn(<<N("a"), N("a.b.c")>>, 4), Fn(<<N("noext")>>, 5),
  Dn(<<N("sp ace")>>), Fn(<<N("sp ace"), N("index.htm")>>, 6), Fn(<<UU>>, 7), Fn(<<N("a"), N("a"), N("a")>>, 8),
  Dn(<<N("m")>>),
  Fn(<<N("m"), N("f.css")>>, 101), Fn(<<N("m"), N("f.html")>>, 102), Fn(<<N("m"), N("f.htm")>>, 103), Fn(<<N("m"), N("f.js")>>, 104),
  Fn(<<N("m"), N("f.mjs")>>, 105), Fn(<<N("m"), N("f.txt")>>, 106), Fn(<<N("m"), N("f.bmp")>>, 107), Fn(<<N("m"), N("f.gif")>>, 108),
  Fn(<<N("m"), N("f.jpeg")>>, 109), Fn(<<N("m"), N("f.jpg")>>, 110), Fn(<<N("m"), N("f.png")>>, 111), Fn(<<N("m"), N("f.webp")>>, 112),
  Fn(<<N("m"), N("f.svg")>>, 113), Fn(<<N("m"), N("f.ico")>>, 114), Fn(<<N("m"), N("f.json")>>, 115), Fn(<<N("m"), N("f.pdf")>>, 116),
  Fn(<<N("m"), N("f.zip")>>, 117), Fn(<<N("m"), N("f.mp4")>>, 118), Fn(<<N("m"), N("f.ogv")>>, 119), Fn(<<N("m"), N("f.webm")>>, 120),
  Fn(<<N("m"), N("f.ttf")>>, 121), Fn(<<N("m"), N("f.otf")>>, 122), Fn(<<N("m"), N("f.woff")>>, 123), Fn(<<N("m"), N("f.woff2")>>, 124),
  Fn(<<N("m"), N("archive.tar.gz")>>, 125), Fn(<<N("m"), N("f.")>>, 126), Fn(<<N("m"), N("Makefile")>>, 127) })

\* W2: index.htm only at the root, a directory with both index files, directories whose names look like files
W2 == World({
  Fn(<<N("index.htm")>>, 21), Dn(<<N("a")>>), Fn(<<N("a"), N("index.html")>>, 22), Fn(<<N("a"), N("index.htm")>>, 23),
  Dn(<<N("noext")>>), Dn(<<N("a.b.c")>>), Fn(<<N("a.b.c"), N("index.htm")>>, 24), Fn(<<N("sp ace")>>, 25),
  Dn(<<UU>>), Fn(<<UU, UU>>, 26), Fn(<<UU, N("index.html")>>, 27), Dn(<<N("a"), N("a")>>), Fn(<<N("a"), N("a"), N("index.html")>>, 28),
  Fn(<<N("a"), N("noext")>>, 29) })

\* W3: no index at the root; `a` is a regular file (everything below it is ENOTDIR); names with dots, percent
\* signs, colons and a backslash; names that contain `..` (outside the "is returned" half: either answer)
W3 == World({
  Fn(<<N("a")>>, 31), Fn(<<N("a.b.c")>>, 32), Fn(<<N("noext")>>, 33), Fn(<<N(".hidden")>>, 34),
  Dn(<<N("...")>>), Fn(<<N("..."), N("index.html")>>, 35), Fn(<<N("a..b")>>, 36), Fn(<<N("%41.txt")>>, 37),
  Fn(<<N("A.txt")>>, 38), Dn(<<N("%2e%2e")>>), Fn(<<N("%2e%2e"), N("index.html")>>, 39), Fn(<<N("x:y")>>, 40),
  Fn(<<BSL>>, 41), Fn(<<N("b") \o BSL \o N("c")>>, 42), Dn(<<N("sp ace")>>), Fn(<<N("sp ace"), UU>>, 43),
  Fn(<<N(".a.b")>>, 44), Dn(<<N("root")>>), Fn(<<N("root"), N("index.html")>>, 45) })

Worlds == <<W1, W2, W3>>

\* W4, the world of names (not enumerated against the catalogue; swept by MC_StaticFs!Sweep*):
\*   b/<c>   one file per ASCII byte 1..127 except `.` and `/` (controls, DEL, space, % : \ * ? # ...)
\*   u/...   one representative per Unicode class at the start, in the middle, at the end of a name: non-ASCII digits,
\*           other numerics, non-ASCII white space, case mappings that change length, a combining mark, C1 controls,
\*           private use, the first / last scalar of each UTF-8 length; together with b/ every byte that can occur in
\*           UTF-8 occurs in some name
\*   x/...   names that are only an extension, several dots with a known last extension, trailing dots
\*   static/, dü/, s/   sub-directories named like the route prefixes
\*   d/d/.../index.htm   a deep chain of directories that contain only index.htm
\*   z/...   files whose sizes are boundary values (SizeOf: content id -> bytes; the harness writes them that long)
NBSP == <<194, 160>>
U(a) == a                                              \* (readability: a UTF-8 byte string written out)
UniNames == <<
  NBSP \o N("a.txt"), N("a") \o NBSP, N("a") \o <<227, 128, 128>> \o N("b.css"), <<194, 133>> \o N("n"), N("l") \o <<226, 128, 168>>,
  <<225, 154, 128>>, <<217, 163>> \o N(".html"), <<239, 188, 145, 239, 188, 145>>, <<240, 157, 159, 153>> \o N(".js"),
  <<194, 178, 194, 189, 226, 133, 167>>, <<195, 159>> \o N(".txt"), N("x.") \o <<195, 159>>, <<196, 176>> \o N(".css"),
  <<239, 172, 129>> \o N("le.json"), N("e") \o <<204, 129>> \o N(".txt"), <<194, 128>> \o N("c1"), N("c1") \o <<194, 159>>,
  <<127>> \o N("del") \o <<127>>, <<238, 128, 128>>, <<244, 143, 191, 191>> \o N(".png"), <<240, 144, 128, 128>>, <<237, 159, 191>>,
  <<224, 160, 128>>, <<223, 191>>, <<194, 128>>, <<239, 191, 189>> \o N(".svg"), <<243, 176, 128, 128>>, <<241, 128, 128, 128>>,
  <<225, 128, 128>> \o <<236, 191, 191>>, <<195, 128>> \o <<197, 184>> \o <<198, 146>> \o <<199, 128>> >>
DotNames == << N(".html"), N(".css"), N("x.html.txt"), N("page.txt.html"), N("archive.min.js"), N("f.txt."), N("tar.gz"),
               N("a.b.c.d.e.json"), N(".a.png"), N("noext."), N("html"), N("x.htmlx"), N("x.ht ml") >>
LongName == [i \in 1..255 |-> 110]                     \* 255 bytes, the longest name Linux accepts
DU == <<100, 195, 188>>                                \* "dü"
SizeOf == << <<5000, 0>>, <<5001, 1>>, <<5002, 255>>, <<5003, 256>>, <<5004, 65535>>, <<5005, 65536>>, <<5006, 65537>>, <<5007, 3145729>> >>
W4 == World(
  {Dn(<<N("b")>>), Dn(<<N("u")>>), Dn(<<N("x")>>), Dn(<<N("z")>>), Dn(<<N("static")>>), Dn(<<N("static"), N("static")>>),
   Dn(<<DU>>), Dn(<<N("s")>>), Dn(<<N("u"), NBSP \o N("d") \o NBSP>>)}
  \cup {Fn(<<N("b"), <<c>>>>, 1000 + c) : c \in (1..127) \ {DOT, SLASH}}
  \cup {Fn(<<N("u"), UniNames[i]>>, 2000 + i) : i \in 1..Len(UniNames)}
  \cup {Fn(<<N("x"), DotNames[i]>>, 3000 + i) : i \in 1..Len(DotNames)}
  \cup {Dn([i \in 1..k |-> N("d")]) : k \in 1..8}
  \cup {Fn([i \in 1..8 |-> N("d")] \o <<N("index.htm")>>, 4000), Fn(<<N("u"), NBSP \o N("d") \o NBSP, N("index.htm")>>, 4001),
        Fn(<<N("static"), N("index.html")>>, 4002), Fn(<<N("static"), N("static"), N("x.txt")>>, 4003), Fn(<<DU, N("x.txt")>>, 4004),
        Fn(<<DU \o DU>>, 4005), Fn(<<N("s"), N("s")>>, 4006), Fn(<<N("static.txt")>>, 4007), Fn(<<LongName>>, 4008),
        Fn(<<N("z"), N("empty.txt")>>, 5000), Fn(<<N("z"), N("one.bin")>>, 5001), Fn(<<N("z"), N("s255")>>, 5002),
        Fn(<<N("z"), N("s256.css")>>, 5003), Fn(<<N("z"), N("s65535.js")>>, 5004), Fn(<<N("z"), N("s65536.png")>>, 5005),
        Fn(<<N("z"), N("s65537.pdf")>>, 5006), Fn(<<N("z"), N("big.bin")>>, 5007)})

\* segment spellings; the first 18 are the catalogue of the property's quantifier
Catalogue == <<
  N("a"), N("."), N(".."), N("..."), <<>>, N("%2e%2e"), N("%2E."), N(".%2e"), N("%2f"), N("%5c"), N("%00"),
  N("%252e%252e"), N("%c0%ae%c0%ae"), N("sp ace"), UU, N("a.b.c"), N("noext"), N("index.html"),
  \* 19.. : encoded spellings of the names, the names of what lies outside, malformed escapes, more dots
  N("sp%20ace"), N("%C3%BC"), N("index.htm"), N("canary.txt"), N("root"), N("%2e"),
  N("index%2Ehtml"), N("%61"), N("base"), N("%252e"), N("%c0%ae"), N("a%2fa"),
  N("%2e%2e%2f"), N("%zz"), N("%"), N("x:y"), N("..%5c"), N("a..b"), N(".hidden"), N("%2541.txt"), N("%41.txt"), BSL,
  N("b%5cc"), N("%c3"), N("x%3Ay"), N("%2E%2E"), N("m"), N("f.woff2") >>

(***************************************************************************)
(* 5. Enumeration of the request paths as states                           *)
(***************************************************************************)
VARIABLE path          \* sequence of catalogue indices
Rel(pth) == JoinSlash([i \in 1..Len(pth) |-> Catalogue[pth[i]]])

Init == path = <<>>
Extend == /\ Len(path) < MaxDepth
          /\ \E s \in 1..CatN : path' = Append(path, s)
Next == Extend
Spec == Init /\ [][Next]_path

WorldIx == 1..Len(Worlds)
PrefixRule     == PrefixRuleAt(Rel(path))
Confinement    == ConfinementAt(Worlds, Rel(path))
GuardSound     == GuardSoundAt(Worlds, Rel(path))
SharedIsHandle == Len(path) <= 2 => SharedIsHandleAt(Worlds, Rel(path))
ModelConforms  == ModelConformsAt(Worlds, Rel(path))
ConfinedAndConforms == ConfinedAndConformsAt(Worlds, Rel(path))
ModelJudged    == ModelJudgedAt(Worlds, Rel(path))
\* evaluated in the initial state only (they quantify over the nodes of the worlds)
Positive       == (path = <<>>) => \A wi \in WorldIx : PositiveHalf(Worlds[wi])
RedirectIndex  == (path = <<>>) => \A wi \in WorldIx : RedirectIndexRule(Worlds[wi]) /\ NoWildcardRule(Worlds[wi])
\* sanity of the world data: ids identify files, the canary and the twin are the only files outside
WorldOk(w) ==
  LET files == {n \in w.nodes : n.k = "f"} IN
  /\ \A x \in files, y \in files : x.id = y.id => x = y
  /\ \A x \in w.nodes, y \in w.nodes : x.p = y.p => x = y
  /\ \A x \in w.nodes : x.p # <<>> => NodeAt(w, Parent(x.p)).k = "d"
  /\ NodeAt(w, w.root).k = "d"
  /\ 0 \notin w.inside \cup w.outside
WorldsOk == (path = <<>>) => \A wi \in WorldIx : WorldOk(Worlds[wi]) /\ Worlds[wi].outside = {CanaryId, TwinId}
=============================================================================
