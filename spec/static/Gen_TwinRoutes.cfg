CONSTANTS
  Dev = {}
  MaxLen = 3
SPECIFICATION Spec
INVARIANT GenInv
CHECK_DEADLOCK FALSE
