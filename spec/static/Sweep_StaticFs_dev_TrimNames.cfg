CONSTANTS
  Dev = {"TrimNames"}
  CatN = 1
  RouteN = 4
  MaxDepth = 0
INIT SweepInit
NEXT SweepNext
INVARIANT SweepPositive
CHECK_DEADLOCK FALSE
