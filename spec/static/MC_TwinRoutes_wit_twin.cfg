CONSTANTS
  Dev = {"RouteRelativeKey"}
  MaxLen = 3
SPECIFICATION Spec
INVARIANT Wit_NoTwin
CHECK_DEADLOCK FALSE
