CONSTANTS
  Dev = {"HexLowerOnly"}
  CatN = 1
  RouteN = 4
  MaxDepth = 0
INIT SweepInit
NEXT SweepNext
INVARIANT SweepJudged
CHECK_DEADLOCK FALSE
