CONSTANTS
  Dev = {}
  CatN = 20
  RouteN = 3
  MaxDepth = 4
INIT Init
NEXT Next
INVARIANTS WorldsOk SharedIsHandle PrefixRule Confinement GuardSound ModelConforms ModelJudged Positive RedirectIndex
CHECK_DEADLOCK FALSE
