CONSTANTS
  Dev = {}
  CatN = 18
  RouteN = 1
  MaxDepth = 5
INIT GenInit
NEXT GenNext
INVARIANT GenInv
CHECK_DEADLOCK FALSE
