CONSTANTS
  Dev = {}
  CatN = 24
  RouteN = 3
  MaxDepth = 3
INIT Init
NEXT Next
INVARIANTS WorldsOk SharedIsHandle PrefixRule Confinement GuardSound ModelConforms Positive RedirectIndex
CHECK_DEADLOCK FALSE
