CONSTANTS
  Dev = {}
  CatN = 20
  RouteN = 1
  MaxDepth = 4
INIT GenInit
NEXT GenNext
INVARIANT GenInv
CHECK_DEADLOCK FALSE
