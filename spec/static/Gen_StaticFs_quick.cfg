CONSTANTS
  Dev = {}
  CatN = 30
  RouteN = 1
  MaxDepth = 3
INIT GenInit
NEXT GenNext
INVARIANT GenInv
CHECK_DEADLOCK FALSE
