---------------------------- MODULE MC_StaticFs ----------------------------
(* TLC-only helpers for StaticFs: vector generation (one JSON line per request path of the bound with
   the answers the property admits, per world, for the decoding handlers and for the literal one) and
   the dump of the worlds which the harness realises on disk. *)
EXTENDS StaticFs, Json, IOUtils

\* GENFIRST = k > 0 restricts the enumeration to paths whose first segment is catalogue entry k and
\* GENMIN = m prints only paths of at least m segments: the driver splits the deepest layer into one
\* TLC run per first segment so that no run prints more than ~10^5 lines.
GenFirst == IF "GENFIRST" \in DOMAIN IOEnv THEN atoi(IOEnv.GENFIRST) ELSE 0
GenMin   == IF "GENMIN" \in DOMAIN IOEnv THEN atoi(IOEnv.GENMIN) ELSE 0

\* compact form of an expectation: kind letter (f r n x), id, ct, then the alternative when there is one
Letter(k) == IF k = "file" THEN "f" ELSE IF k = "redirect" THEN "r" ELSE IF k = "notfound" THEN "n" ELSE "x"
DCode(dm) == <<dm.k, dm.id, dm.x>>                       \* a demand of the statement (StaticFs 3e)
Code(e) == IF e.ak = "none" THEN <<Letter(e.k), e.id, e.ct>> ELSE <<Letter(e.k), e.id, e.ct, Letter(e.ak), e.aid, e.act>>
\* for the harness's judge: every extension of the table with the media types accepted for it
Accepted == [i \in 1..Len(MimeTable) |-> <<MimeTable[i][1], AcceptedTypes(MimeTable[i][1])>>]
GenInit == path = IF GenFirst = 0 THEN <<>> ELSE <<GenFirst>>
GenNext == Extend
GenLine ==
  LET rel == Rel(path)
      ed == ExpectDecodingPrep(rel)
      el == ExpectLiteralPrep(rel)
      xp == FilePathPrepD({"FilePathNoCheck"}, <<SLASH>> \o rel)
      pd == DemandDecodingPrep(rel)
      ps == IF rel # <<>> /\ rel[1] # SLASH THEN pd ELSE DemandDecodingSPrep(rel)
      pl == DemandLiteralPrep(rel) IN
  [ r |-> rel,
    d |-> [wi \in WorldIx |-> Code(ExpectDecodingOn(Worlds[wi], ed))],
    f |-> [wi \in WorldIx |-> Code(ExpectLiteralOn(Worlds[wi], el))],
    jd |-> [wi \in WorldIx |-> DCode(DemandOn(Worlds[wi], pd))],
    js |-> [wi \in WorldIx |-> DCode(DemandOn(Worlds[wi], ps))],      \* under a prefix that does not end in a slash
    jf |-> [wi \in WorldIx |-> DCode(DemandLiteralOn(Worlds[wi], pl))],
    \* what serve_as_file_path answers without its check (deviation FilePathNoCheck): status and content id
    x |-> [wi \in WorldIx |-> LET a == HandleOnD({"FilePathNoCheck"}, "file_path", Worlds[wi], xp, <<SLASH>> \o rel) IN <<a.st, a.id>>] ]
GenInv == Len(path) >= GenMin => PrintT(ToJson(GenLine))

\* The deepest layer in one pass: Confinement and ModelConforms (the formulas of ConfinedAndConformsAt) and the vector
\* line, sharing the lookups.  Used with GENFIRST = k, GENMIN = MaxDepth: one TLC run per first segment.
DeepInv ==
  LET rel == Rel(path)
      fp == TryFindPrepD(Dev, rel)
      lp == FilePathPrepD(Dev, <<SLASH>> \o rel)
      ed == ExpectDecodingPrep(rel)
      el == ExpectLiteralPrep(rel)
      pd == DemandDecodingPrep(rel)
      ps == IF rel # <<>> /\ rel[1] # SLASH THEN pd ELSE DemandDecodingSPrep(rel)
      pl == DemandLiteralPrep(rel)
      per == [wi \in WorldIx |-> [loc |-> TryFindOnD(Dev, Worlds[wi], fp),
                                  xd  |-> ExpectDecodingOn(Worlds[wi], ed),
                                  xl  |-> ExpectLiteralOn(Worlds[wi], el),
                                  dd  |-> DemandOn(Worlds[wi], pd),
                                  ds  |-> DemandOn(Worlds[wi], ps),
                                  dl  |-> DemandLiteralOn(Worlds[wi], pl)]]
  IN
  /\ \A wi \in WorldIx : \A tg \in Targets :
        LET a == AnswerAt(Worlds[wi], tg, rel, per[wi].loc, lp) IN
        /\ ConfinedAnswer(Worlds[wi], a)
        /\ Conforms(IF tg[1] = "file_path" THEN per[wi].xl ELSE per[wi].xd, UriFor(tg[1], tg[2], rel), a)
        /\ JudgeOk(IF tg[1] = "file_path" THEN per[wi].dl ELSE IF Slashless(tg[2]) THEN per[wi].ds ELSE per[wi].dd, UriFor(tg[1], tg[2], rel), <<>>, a)
  /\ Len(path) >= GenMin =>
        \* p = the catalogue indices (the harness joins the spellings printed in the header line)
        PrintT(ToJson([ p |-> path,
                        d |-> [wi \in WorldIx |-> Code(per[wi].xd)],
                        f |-> [wi \in WorldIx |-> Code(per[wi].xl)],
                        jd |-> [wi \in WorldIx |-> DCode(per[wi].dd)],
                        js |-> [wi \in WorldIx |-> DCode(per[wi].ds)],
                        jf |-> [wi \in WorldIx |-> DCode(per[wi].dl)] ]))

WorldLine(wi) == [world |-> wi, root |-> Worlds[wi].root, nodes |-> Worlds[wi].nodes]
GenWorlds == path = <<>> => /\ PrintT(ToJson([routes |-> RouteList, nostar |-> STATIC_NOSTAR, cat |-> Catalogue, sizes |-> SizeOf, accepted |-> Accepted]))
                            /\ \A wi \in WorldIx : PrintT(ToJson(WorldLine(wi)))

\* ---- the sweep of W4 (names, escapes, sizes, prefix-like directories).  Here the state variable `path` holds the
\*      relative request path itself (a byte string), taken from SweepSet; there is no Next.
Escape(b, u1, u2) == <<PCT, IF u1 THEN HexDigitU(b \div 16) ELSE HexDigitL(b \div 16), IF u2 THEN HexDigitU(b % 16) ELSE HexDigitL(b % 16)>>
\* every byte value as one escape, all four upper/lower-case combinations of its two hex digits, as a name below b/
EscapeSweep == {N("b/") \o Escape(b, u1, u2) : b \in 0..255, u1 \in BOOLEAN, u2 \in BOOLEAN}
\* every node of W4 under its spellings, directories also with a trailing slash (and a doubled one)
NodeSweep == UNION { LET sp == Spellings(RelNames(W4, n)) IN
                     IF n.k = "d" THEN sp \cup {x \o <<SLASH>> : x \in sp} \cup {x \o <<SLASH, SLASH>> : x \in sp}
                     ELSE sp \cup {x \o <<SLASH>> : x \in sp}
                   : n \in {m \in W4.nodes : IsPrefix(W4.root, m.p) /\ Len(m.p) > Len(W4.root)} }
AbsCanary == JoinSlash(Append(AboveRoot, N("canary.txt")))           \* l1/l2/l3/l4/base/canary.txt
AbsInside == JoinSlash(RootPath \o <<N("b"), N("a")>>)
ExtraSweep == { <<>>, N("/"), N("static"), N("static/static"), N("staticstatic"), N("static/../static/index.html"), DU, DU \o N("/") \o DU, N("s"), N("ss"),
                <<SLASH>> \o AbsCanary, <<SLASH, SLASH>> \o AbsCanary, N("%2f") \o AbsCanary, N("%2F%2f") \o AbsCanary, <<SLASH>> \o AbsInside, <<SLASH, SLASH>> \o AbsInside,
                [i \in 1..256 |-> 110], N("z/empty.txt/."), N("x/.html/"), N("b/%2E"), N("b/%2e%2E"), N("b/%"), N("b/%4"), N("b/%4g"), N("b/%G1"), N("b/%+1"),
                N("u/%C2%A0a.txt%20"), N("u/%20%C2%A0a.txt"), N("u/a%C2%A0"), N("u/a"), N("u/%E3%80%80"), N("x/x.HTML.TXT"), N("x/X.HTML.TXT"), N("B/a"), N("z/BIG.BIN") }
\* `%+1`: Rust's from_str_radix accepts a sign; the property (and C18) say an escape is two hex digits.  Left out of the
\* sweep when the code under test is known to differ there would hide nothing here: it is malformed, hence refused.
\* the same spellings behind one slash: how they are requested under a prefix that does not end in a slash (`/dü*`)
SlashSweep == {<<SLASH>> \o x : x \in NodeSweep}
SweepSet == EscapeSweep \cup NodeSweep \cup SlashSweep \cup ExtraSweep
SweepWorlds == <<W4>>
SweepInit == path \in SweepSet
SweepNext == FALSE /\ UNCHANGED path
SweepFirst == CHOOSE x \in SweepSet : TRUE
SweepInv ==
  LET rel == path
      fp == TryFindPrepD(Dev, rel)
      lp == FilePathPrepD(Dev, <<SLASH>> \o rel)
      ed == ExpectDecodingPrep(rel)
      el == ExpectLiteralPrep(rel)
      loc == TryFindOnD(Dev, W4, fp)
      xd == ExpectDecodingOn(W4, ed)
      xl == ExpectLiteralOn(W4, el)
      dd == DemandDecoding(W4, rel)
      ds == DemandDecodingS(W4, rel)
      dl == DemandLiteral(W4, rel)
  IN
  /\ PrefixRuleAt(rel)
  /\ GuardSoundAt(SweepWorlds, rel)
  /\ SharedIsHandleAt(SweepWorlds, rel)
  /\ \A tg \in Targets :
        LET a == AnswerAt(W4, tg, rel, loc, lp) IN
        /\ ConfinedAnswer(W4, a)
        /\ Conforms(IF tg[1] = "file_path" THEN xl ELSE xd, UriFor(tg[1], tg[2], rel), a)
        /\ JudgeOk(IF tg[1] = "file_path" THEN dl ELSE IF Slashless(tg[2]) THEN ds ELSE dd, UriFor(tg[1], tg[2], rel), <<>>, a)
  /\ (rel = SweepFirst) =>                                    \* once: the world itself
        /\ WorldOk(W4) /\ PositiveHalf(W4) /\ RedirectIndexRule(W4) /\ NoWildcardRule(W4)
        /\ PrintT(ToJson([routes |-> RouteList, nostar |-> STATIC_NOSTAR, cat |-> <<>>, sizes |-> SizeOf, accepted |-> Accepted]))
        /\ PrintT(ToJson([world |-> 4, root |-> W4.root, nodes |-> W4.nodes]))
  /\ PrintT(ToJson([ r |-> rel, d |-> <<Code(xd)>>, f |-> <<Code(xl)>>, jd |-> <<DCode(dd)>>, js |-> <<DCode(ds)>>, jf |-> <<DCode(dl)>> ]))
\* the same properties, named, for the must-violate configurations
SweepPositive  == (path = SweepFirst) => PositiveHalf(W4)
SweepPrefix    == PrefixRuleAt(path)
SweepConfined  == ConfinementAt(SweepWorlds, path)
SweepConforms  == ModelConformsAt(SweepWorlds, path)
SweepJudged    == ModelJudgedAt(SweepWorlds, path)

\* data checks evaluated once at start-up
ASSUME B("a/~") = <<97, 47, 126>> /\ B(" \\\"") = <<32, 92, 34>> /\ Len(Printable) = 95
ASSUME PercentDecode(B("%41%2e%2E%")) = <<65, 46, 46, BAD>>
ASSUME Utf8Ok(UU) /\ ~Utf8Ok(<<192, 174>>) /\ ~Utf8Ok(<<195>>) /\ ~Utf8Ok(<<237, 160, 128>>) /\ Utf8Ok(<<240, 159, 152, 128>>)
ASSUME Split(B("a//b/")) = <<B("a"), <<>>, B("b"), <<>>>> /\ Split(<<>>) = << <<>> >> /\ Split(B("/")) = << <<>>, <<>> >>
ASSUME Ext(B("a.b.c")).e = B("c") /\ ~Ext(B(".hidden")).has /\ ~Ext(B("noext")).has /\ Ext(B("f.")).has /\ Ext(B(".a.b")).e = B("b")
ASSUME DropChars(<<SLASH, 195, 188, 97>>, 2) = <<97>> /\ DropChars(<<97>>, 2) = <<BAD>>
ASSUME EncNeeded(B("a b%")) = B("a%20b%25") /\ EncAllL(<<195>>) = B("%c3")
=============================================================================
