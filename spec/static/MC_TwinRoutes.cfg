CONSTANTS
  Dev = {}
  MaxLen = 3
SPECIFICATION Spec
INVARIANT Inv_Inside
INVARIANT Inv_Intact
CHECK_DEADLOCK FALSE
