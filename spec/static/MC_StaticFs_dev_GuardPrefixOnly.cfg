CONSTANTS
  Dev = {"GuardPrefixOnly"}
  CatN = 18
  RouteN = 3
  MaxDepth = 3
INIT Init
NEXT Next
INVARIANTS Confinement
CHECK_DEADLOCK FALSE
