CONSTANTS
  Dev = {"PreferIndexHtm"}
  CatN = 18
  RouteN = 3
  MaxDepth = 3
INIT Init
NEXT Next
INVARIANTS RedirectIndex
CHECK_DEADLOCK FALSE
