CONSTANTS
  Dev = {"GuardPrefixOnly"}
  CatN = 18
  RouteN = 3
  MaxDepth = 3
INIT Init
NEXT Next
INVARIANTS ModelConforms
CHECK_DEADLOCK FALSE
