--------------------------- MODULE Trace_StaticFs ---------------------------
(* Code -> spec direction for C06.  The harness builds random worlds (IOEnv.WORLDS: one JSON record per world,
   {"world","root","nodes"}) and sends random, deeper request paths plus every file and directory of each
   world under its spellings to the real handlers, logging one record per call (IOEnv.TRACE:
   {"w","h","route","uri","st","id","ct","loc","canary"}).  Every record must be an answer the property admits
   (Conforms against Expect, the same operators TLC used on the bounded space) and must be confined; every
   logged world must be well-formed and the handler model must satisfy the positive half and the redirect /
   index rule on it (so the random worlds are also model-checked, not only replayed). *)
EXTENDS StaticFs, Json, IOUtils

WRec == ndJsonDeserialize(IOEnv.WORLDS)
Rec  == ndJsonDeserialize(IOEnv.TRACE)
TWorlds == [i \in 1..Len(WRec) |-> MkWorld(WRec[i].root, {WRec[i].nodes[j] : j \in 1..Len(WRec[i].nodes)})]

VARIABLES l, bad
tvars == <<path, l, bad>>

Got(r) == [st |-> r.st, id |-> r.id, ct |-> r.ct, loc |-> r.loc, canary |-> r.canary]
RecOk(r) ==
  LET w == TWorlds[r.w]
      pre == IF r.h = "file_path" THEN <<SLASH>> ELSE Prefix(r.route) IN
  /\ IsPrefix(pre, r.uri)                                  \* the harness only sends uris the route matches
  /\ LET rel == Drop(r.uri, Len(pre)) IN
     /\ Conforms(Expect(r.h, w, rel), r.uri, Got(r))
     /\ ConfinedAnswer(w, Got(r))

TInit == path = <<>> /\ l = 1 /\ bad = <<>>
TNext == /\ l <= Len(Rec)
         /\ l' = l + 1
         /\ bad' = IF RecOk(Rec[l]) \/ Len(bad) >= 20 THEN bad ELSE Append(bad, l)
         /\ UNCHANGED path
TSpec == TInit /\ [][TNext]_tvars

\* checked at the last state: every record consumed and none disagreed (the first 20 disagreeing
\* records are printed for the driver, which stores them as the replay file)
AllAgree == (l = Len(Rec) + 1) =>
              \/ bad = <<>>
              \/ PrintT(ToJson([rejected |-> [i \in 1..Len(bad) |-> Rec[bad[i]]]])) /\ FALSE
\* the logged worlds, model-checked (initial state only)
TraceWorldsOk == (l = 1) => \A i \in 1..Len(TWorlds) :
                    /\ WorldOk(TWorlds[i])
                    /\ PositiveHalf(TWorlds[i])
                    /\ RedirectIndexRule(TWorlds[i])
                    /\ NoWildcardRule(TWorlds[i])
=============================================================================
