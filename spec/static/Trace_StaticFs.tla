--------------------------- MODULE Trace_StaticFs ---------------------------
(* Code -> spec direction for C06.  The harness builds random worlds (IOEnv.WORLDS: one JSON record per world,
   {"world","root","nodes"}) and sends random, deeper request paths plus every file and directory of each
   world under its spellings to the real handlers, logging one record per call (IOEnv.TRACE:
   {"w","h","route","uri","q","st","id","ct","ctb","loc","canary","panic","growth"}; h = serve_dir | directory | file_path | serve_file).  Every record must be an answer the property admits
   (Conforms against Expect, the same operators TLC used on the bounded space) and must be confined; every
   logged world must be well-formed and the handler model must satisfy the positive half and the redirect /
   index rule on it (so the random worlds are also model-checked, not only replayed). *)
EXTENDS StaticFs, Json, IOUtils

WRec == ndJsonDeserialize(IOEnv.WORLDS)
Rec  == ndJsonDeserialize(IOEnv.TRACE)
TWorlds == [i \in 1..Len(WRec) |-> MkWorld(WRec[i].root, {WRec[i].nodes[j] : j \in 1..Len(WRec[i].nodes)})]

\* The records are independent, so they are checked in parallel: the log is cut into chunks of Chunk records,
\* every chunk is a behaviour l = first, first + 1, ... and TLC's workers walk the chunks concurrently.
VARIABLE l
tvars == <<path, l>>
Chunk == 500

\* strict reading (today's choices): a record it rejects is a SPEC-DRIFT note unless the statement rejects it too
Got(r) == [st |-> r.st, id |-> r.id, ct |-> r.ct, ctb |-> r.ctb, loc |-> r.loc, canary |-> r.canary \/ r.panic]
RecOk(r) ==
  LET w == TWorlds[r.w] IN
  IF r.h = "serve_file"
  THEN \* route = the configured path relative to the root; the uri is irrelevant
       Conforms(ExpectFixed(w, r.route), r.uri, Got(r)) /\ ConfinedAnswer(w, Got(r))
  ELSE LET pre == IF r.h = "file_path" THEN <<SLASH>> ELSE Prefix(r.route) IN
       /\ IsPrefix(pre, r.uri)                             \* the harness only sends uris the route matches
       /\ LET rel == Drop(r.uri, Len(pre)) IN
          /\ Conforms(Expect(r.h, w, rel), r.uri, Got(r))
          /\ ConfinedAnswer(w, Got(r))
\* the statement of the property (StaticFs 3e).  serve_file is not named by the statement and the records taken through a
\* real App (growth) depend on the connection machinery of other properties: for those only "no bytes from outside".
JGot(r) == [st |-> r.st, id |-> r.id, ct |-> r.ct, ctb |-> r.ctb, loc |-> r.loc, canary |-> r.canary]
Judged(r) ==
  LET w == TWorlds[r.w] IN
  IF r.h = "serve_file" \/ r.growth THEN ~r.canary
  ELSE LET pre == IF r.h = "file_path" THEN <<SLASH>> ELSE Prefix(r.route) IN
       /\ IsPrefix(pre, r.uri)
       /\ JudgeOk(Demand(r.h, w, r.route, Drop(r.uri, Len(pre))), r.uri, r.q, JGot(r))

TInit == /\ path = <<>>
         /\ l \in {1 + (c - 1) * Chunk : c \in 1..((Len(Rec) + Chunk - 1) \div Chunk)}
TNext == /\ l < Len(Rec) /\ l % Chunk # 0
         /\ l' = l + 1
         /\ UNCHANGED path
TSpec == TInit /\ [][TNext]_tvars

\* every record agrees; a disagreeing record is printed for the driver, which stores it as the replay file
AllAgree == Judged(Rec[l]) \/ (PrintT(ToJson([rejected |-> <<Rec[l]>>])) /\ FALSE)
\* never fails: notes the records that the statement admits but the strict reading does not (PrintT is TRUE)
DriftNote == (Judged(Rec[l]) /\ ~RecOk(Rec[l])) => PrintT(ToJson([drift |-> l]))
\* the logged worlds, model-checked: world i when l = i (spread over the states so that no single state pays for all)
TraceWorldsOk == l <= Len(TWorlds) =>
                    /\ WorldOk(TWorlds[l])
                    /\ PositiveHalf(TWorlds[l])
                    /\ RedirectIndexRule(TWorlds[l])
                    /\ NoWildcardRule(TWorlds[l])
ASSUME Len(Rec) >= Len(TWorlds)
=============================================================================
