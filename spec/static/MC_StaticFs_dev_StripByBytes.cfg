CONSTANTS
  Dev = {"StripByBytes"}
  CatN = 18
  RouteN = 3
  MaxDepth = 3
INIT Init
NEXT Next
INVARIANTS PrefixRule
CHECK_DEADLOCK FALSE
