CONSTANTS
  Dev = {}
  CatN = 46
  RouteN = 3
  MaxDepth = 3
INIT Init
NEXT Next
INVARIANTS WorldsOk SharedIsHandle PrefixRule Confinement GuardSound ModelConforms ModelJudged Positive RedirectIndex
CHECK_DEADLOCK FALSE
