CONSTANTS
  Dev = {}
  CatN = 1
  RouteN = 1
  MaxDepth = 0
INIT GenInit
NEXT GenNext
INVARIANT GenWorlds
CHECK_DEADLOCK FALSE
