CONSTANTS
  Dev = {}
  BufCap = 3
  HasTimeout = TRUE
  MaxReq = 2
  Catalogue = "loop"
SPECIFICATION SimSpec
CHECK_DEADLOCK FALSE
