--------------------------- MODULE Trace_HttpConn ---------------------------
(* Code -> spec direction for C01: each line of the ndjson file is one real connection recorded by
   the harness client (harness/src/connlib.rs): the concrete script (real head / body lengths) and the
   client-side event log.  A connection is ACCEPTED when some behaviour of HttpConn, with the server's
   steps taken silently between the logged events, consumes the whole log.  Every connection is an
   independent initial state; the driver subtracts the accepted ids from the ids in the file.

   Client events:  Send(n)  - n more bytes written        Recv(r) - next response parsed from the stream
                   Eof      - end of stream observed       Quiet   - nothing arrived for the patience time
                   IdleBegin / IdleEnd - idle wait longer than the connection timeout     Shut - shutdown(write) *)
EXTENDS HttpConn, Json, IOUtils

Conns == ndJsonDeserialize(IOEnv.TRACE)

VARIABLES c,      \* which connection
          l,      \* next event
          seen    \* responses the client has received
tvars == <<c, l, seen>>

Evs == Conns[c].events
Ev  == Evs[l]
Is(e) == l <= Len(Evs) /\ Ev.e = e
Step == l' = l + 1 /\ c' = c

TraceInit == \E i \in 1..Len(Conns) : c = i /\ l = 1 /\ seen = 0 /\ Init0(Conns[i].script)

\* Reads between two logged events are collapsed into one landing of `taken`.  A sequence of reads (each of any
\* size >= 1, each at most the reader's capacity, the last one starting before the byte the parser still needs)
\* can end anywhere up to Reach; what matters about the landing is where it lies relative to the request
\* boundaries, so the furthest landing and the landings on / just after each boundary are tried.
Bounds == UNION { { Start(script, i), Start(script, i) + script[i].hl, End(script, i) } : i \in { j \in 1..Len(script) : IsReq(script[j]) } }
NeedNow == IF spc = "head" THEN HeadNeed ELSE ReqEnd
Reach == Max(taken, NeedNow - 1) + BufCap
Landings == { L \in ({Min(sent, Reach)} \cup Bounds \cup { b + 1 : b \in Bounds }) : L > taken /\ L <= sent /\ L <= Reach }
Srv_FillTo(L) ==
  /\ open /\ spc \in {"head", "body"} /\ taken < sent /\ taken < NeedNow
  /\ taken' = L
  /\ UNCHANGED <<script, sent, idling, idles, cliShut, pos, cur, spc, open, out>>

\* Partial-order reduction: Send, IdleBegin and Shut are enabled by the client alone and only ever enable
\* more server behaviour (a read may always take fewer bytes than have arrived), so they are consumed
\* as soon as they are next in the log; the server's silent steps run when the client is next to observe.
ClientOnlyNext == Is("Send") \/ Is("IdleBegin") \/ Is("Shut")
Silent == /\ ~ClientOnlyNext
          /\ \/ Srv_ReadFirst \/ Srv_Eof \/ Srv_Timeout408
             \/ \E L \in Landings : Srv_FillTo(L)
             \/ Srv_HeadDone \/ Srv_HeadEof \/ Srv_BodyDone \/ Srv_Respond400 \/ Srv_Dispatch \/ Srv_Write
             \/ Srv_Desync400 \/ Srv_Desync408
          /\ UNCHANGED tvars

\* a gap before a send that is long enough for the connection timeout to fire legitimately
SlowTimeout == /\ Is("Send") /\ Ev.slow /\ HasTimeout /\ open /\ spc = "first" /\ pos = sent
               /\ out' = Append(out, R408) /\ open' = FALSE
               /\ UNCHANGED <<script, sent, idling, idles, cliShut, taken, pos, cur, spc>>
               /\ UNCHANGED tvars

\* a 408 that reaches the client long after its last send: the server may have waited out its timeout
\* (it can only be waiting for a first byte if it has consumed everything that was sent)
LateTimeout == /\ Is("Recv") /\ Ev.late /\ Ev.r.st = 408 /\ HasTimeout /\ open
               /\ \/ spc = "first" /\ pos = sent
                  \/ spc = "desync"
               /\ out' = Append(out, R408) /\ open' = FALSE
               /\ UNCHANGED <<script, sent, idling, idles, cliShut, taken, pos, cur, spc>>
               /\ UNCHANGED tvars

TSend == /\ Is("Send") /\ Step /\ seen' = seen
         /\ IF sent + Ev.n <= Limit(script, idles) /\ ~idling /\ ~cliShut THEN Cli_Send(Ev.n)
            ELSE FALSE
TRecv == /\ Is("Recv") /\ Step
         /\ seen < Len(out) /\ Matches(Ev.r, out[seen + 1])
         /\ seen' = seen + 1
         /\ UNCHANGED vars
TEof ==  /\ Is("Eof") /\ Step /\ seen' = seen
         /\ ~open /\ seen = Len(out)
         /\ UNCHANGED vars
\* silence is legitimate only when the server owes nothing: every response written has been received and
\* the server waits for the first byte of a request that has not been sent (or, desynchronised, for ever)
TQuiet == /\ Is("Quiet") /\ Step /\ seen' = seen
          /\ open /\ seen = Len(out) /\ ~cliShut
          /\ \/ spc = "first" /\ pos = sent
             \/ spc = "desync"
          /\ UNCHANGED vars
TIdleBegin == Is("IdleBegin") /\ Step /\ seen' = seen /\ Cli_IdleBegin
TIdleEnd   == Is("IdleEnd") /\ Step /\ seen' = seen /\ Cli_IdleEnd
TShut == /\ Is("Shut") /\ Step /\ seen' = seen
         /\ ~cliShut /\ cliShut' = TRUE
         /\ UNCHANGED <<script, sent, idling, idles, taken, pos, cur, spc, open, out>>

TraceNext == TSend \/ TRecv \/ TEof \/ TQuiet \/ TIdleBegin \/ TIdleEnd \/ TShut \/ Silent \/ SlowTimeout \/ LateTimeout
TraceSpec == TraceInit /\ [][TraceNext]_<<vars, tvars>>

Done == l = Len(Evs) + 1
\* second, hook-free trace source: the server's own monitor events for this peer must be the sequence the
\* model state implies (only judged when the client saw the server's close, i.e. the list is complete)
MonOk == Conns[c].mon_complete => (~open /\ Conns[c].mon = MonExpected)
\* the monitor-event protocol goes beyond what C01 states: an explanation of the client's log is an acceptance either
\* way, the third field says whether the monitor events agree as well (a disagreement is reported as drift, not as a
\* violation of C01)
Report == Done => PrintT(<<"ACC", Conns[c].id, IF MonOk THEN 1 ELSE 0>>)
\* all model invariants are evaluated in every state of every explanation
=============================================================================
