CONSTANTS
  Dev = {}
  BufCap = 3
  HasTimeout = TRUE
  MaxReq = 2
  Catalogue = "trunc"
INIT MCInit
NEXT GenNext
INVARIANT GenInv
CHECK_DEADLOCK FALSE
