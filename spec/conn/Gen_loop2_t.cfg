CONSTANTS
  Dev = {}
  BufCap = 3
  HasTimeout = TRUE
  MaxReq = 2
  Catalogue = "loop"
INIT MCInit
NEXT GenNext
INVARIANT GenInv
CHECK_DEADLOCK FALSE
