CONSTANTS
  Dev = {"CrlfAfterBody", "ReadAheadLost"}
  BufCap = 8192
  HasTimeout = FALSE
SPECIFICATION TraceSpec
INVARIANTS Report Inv_Sane
CHECK_DEADLOCK FALSE
