CONSTANTS
  Dev = {}
  BufCap = 3
  HasTimeout = FALSE
  MaxReq = 3
  Catalogue = "loop"
SPECIFICATION SimSpec
CHECK_DEADLOCK FALSE
