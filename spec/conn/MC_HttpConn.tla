---------------------------- MODULE MC_HttpConn ----------------------------
EXTENDS HttpConn, Json

CONSTANTS MaxReq, Catalogue    \* Catalogue: "loop" (kinds the loop branches on) | "fields" (method/version/target product)

Rq(m, tgt, conn, ver, bl) ==
  [k |-> "req", hl |-> 3, dl |-> 3, bl |-> bl, wf |-> TRUE, m |-> m, tgt |-> tgt, conn |-> conn, ver |-> ver]
Bad(dl) ==
  [k |-> "req", hl |-> 3, dl |-> dl, bl |-> 0, wf |-> FALSE, m |-> "GET", tgt |-> "plain", conn |-> "ka", ver |-> "1.1"]
Idle ==
  [k |-> "idle", hl |-> 0, dl |-> 0, bl |-> 0, wf |-> TRUE, m |-> "GET", tgt |-> "plain", conn |-> "ka", ver |-> "1.1"]

LoopKinds ==
  { Rq("GET", "plain", "ka", "1.1", 0), Rq("GET", "plain", "close", "1.1", 0), Rq("GET", "plain", "none", "1.0", 0),
    Rq("POST", "echo", "ka", "1.1", 2), Rq("POST", "echo", "ka", "1.1", 3), Rq("POST", "echo", "close", "1.0", 2),
    Rq("GET", "panic", "ka", "1.1", 0), Rq("OPTIONS", "cors", "ka", "1.0", 0), Rq("OPTIONS", "unrouted", "ka", "1.1", 0),
    Rq("GET", "unrouted", "ka", "1.1", 0), Bad(2), Bad(3), Idle,
    Rq("OPTIONS", "plain", "close", "1.0", 0) }

FieldKinds ==
  { Rq(m, t, c, v, b) : m \in {"GET", "POST", "PUT", "DELETE", "OPTIONS"},
                        t \in {"plain", "unrouted", "cors", "echo", "empty", "panic"},
                        c \in {"ka", "close", "none"}, v \in {"1.0", "1.1"}, b \in {0, 2} }

\* head truncated by the client's half-close: hl bytes of a head, then shutdown(write); cls = where the harness cuts
\* (1 inside the start line, 2 right after the start line, 3 inside a header line, 4 after a complete header line)
Trunc(hl, cls) ==
  [k |-> "trunc", hl |-> hl, dl |-> cls, bl |-> 0, wf |-> FALSE, m |-> "GET", tgt |-> "plain", conn |-> "ka", ver |-> "1.1"]
TruncKinds == { Trunc(hl, cls) : hl \in 1..2, cls \in 1..4 }
TruncCatalogue == { Rq("GET", "plain", "ka", "1.1", 0), Rq("POST", "echo", "ka", "1.1", 2), Idle } \cup TruncKinds

Kinds == CASE Catalogue = "loop" -> LoopKinds [] Catalogue = "trunc" -> TruncCatalogue [] OTHER -> FieldKinds
\* a truncated head is followed by the client's half-close: it can only be the last element
Scripts == { s \in UNION { [1..n -> Kinds] : n \in 1..MaxReq } : \A i \in 1..(Len(s) - 1) : ~IsTrunc(s[i]) }

MCInit == \E s \in Scripts : Init0(s)
MCSpec == MCInit /\ [][Next]_vars /\ WF_vars(ClientStep) /\ WF_vars(ServerStep)

\* ---- generation of scripts for the conformance harness (one line per script) ----
GenInv == PrintT(ToJson([script |-> script, expected |-> Expected(script), final_open |-> FinalOpen(script)]))
GenNext == FALSE /\ UNCHANGED vars
=============================================================================
