CONSTANTS
  Dev = {}
  BufCap = 3
  HasTimeout = TRUE
  MaxReq = 1
  Catalogue = "fields"
INIT MCInit
NEXT GenNext
INVARIANT GenInv
CHECK_DEADLOCK FALSE
