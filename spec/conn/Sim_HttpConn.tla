---------------------------- MODULE Sim_HttpConn ----------------------------
(* Behaviour generation for the conformance harness: TLC -simulate walks random behaviours of
   HttpConn; the sizes of the client's sends are kept in a history variable and printed, with the
   script, at the step that completes the stream.  The harness maps the abstract offsets to byte offsets. *)
EXTENDS MC_HttpConn
VARIABLE hist
svars == <<vars, hist>>
SimInit == MCInit /\ hist = <<>>
SimSend == \E n \in 1..(Total(script) - sent) :
             /\ Cli_Send(n)
             /\ hist' = Append(hist, n)
             /\ IF sent + n = Total(script)
                THEN PrintT(ToJson([script |-> script, sends |-> hist']))
                ELSE TRUE
SimOther == (Cli_IdleBegin \/ Cli_IdleEnd \/ Cli_Shut \/ ServerStep) /\ UNCHANGED hist
SimNext == SimSend \/ SimOther
SimSpec == SimInit /\ [][SimNext]_svars
=============================================================================
