CONSTANTS
  Dev = {}
  BufCap = 3
  HasTimeout = FALSE
  MaxReq = 1
  Catalogue = "fields"
SPECIFICATION MCSpec
INVARIANTS Inv_OutPrefix Inv_InSync Inv_CloseWhenDue Inv_OpenWhileKept Inv_Sane
PROPERTIES Live_AllAnswered
CHECK_DEADLOCK FALSE
