CONSTANTS
  Dev = {}
  BufCap = 3
  HasTimeout = FALSE
  MaxReq = 2
  Catalogue = "trunc"
SPECIFICATION MCSpec
INVARIANTS Inv_OutPrefix Inv_InSync Inv_CloseWhenDue Inv_OpenWhileKept Inv_Sane
PROPERTIES Live_AllAnswered Live_ClosedOrWaiting
CHECK_DEADLOCK FALSE
