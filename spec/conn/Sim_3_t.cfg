CONSTANTS
  Dev = {}
  BufCap = 3
  HasTimeout = TRUE
  MaxReq = 3
  Catalogue = "loop"
SPECIFICATION SimSpec
CHECK_DEADLOCK FALSE
