CONSTANTS
  Dev = {}
  BufCap = 3
  HasTimeout = FALSE
  MaxReq = 3
  Catalogue = "loop"
INIT MCInit
NEXT GenNext
INVARIANT GenInv
CHECK_DEADLOCK FALSE
