------------------------------ MODULE HttpConn ------------------------------
(* One client connection to a Humphrey App (property C01).

   Code modelled: humphrey/src/app.rs client_handler (threaded) and humphrey/src/tokio/app.rs
   client_handler (tokio), with Request::from_stream[_with_timeout] / from_stream_inner from
   humphrey/src/http/request.rs: read_exact(1) for the first byte of a request, then a *fresh*
   BufReader of capacity BufCap around the socket for the rest of the head and the body.

   The client byte stream is the concatenation of the requests of `script`; bytes are identified by
   their offset.  The client sends it in arbitrary segments (Cli_Send(n), any n), so TLC explores
   every split and every coalescing.  The server is the operational machine
       first byte -> head (BufReader fills) -> body -> dispatch -> write -> next | close
   and the property is stated against the declarative Expected(script).

   Named deviations (Dev):
     ReadAheadLost       the BufReader is created per request, so bytes it read beyond the end of the
                         current request are dropped when the request is done
     Options404Bare      OPTIONS for an unrouted target: bare error page (HTTP/1.1, no Date, Server,
                         Content-Length) and the connection is kept open when keep-alive was asked
     OptionsVersionFixed OPTIONS for a routed target: 204 always says HTTP/1.1
     CrlfAfterBody       serialisation appends CRLF after a non-empty body, beyond Content-Length
     EofEndsHead         (refutable) end of stream inside a request head is taken for the end of the head: the
                         truncated request is dispatched and answered like a complete one

   Head truncated by the client's half-close (script element k = "trunc", only ever the LAST element): the client
   sends hl bytes that are a proper prefix of a well-formed head (cut inside the start line, at a line boundary,
   inside or after a header line - anywhere before the blank line) and then shuts down its sending side.  The server
   meets end of stream inside the head (Srv_HeadEof): no handler is dispatched, the answer is 400 and the connection
   closes.

   Named leniencies of the statement (also switched through Dev; they widen what is ACCEPTED, they are not defects):
     TruncSilentClose    "a malformed request is answered 400": a server that just closes on a client that went away
                         in the middle of a head, without any response, is accepted as well
     LenientLF           a complete head whose line endings are (partly) bare LF (script element k = "lf"; the code
                         answers 400 at offset dl): RFC 7230 3.5 allows a recipient to recognise a lone LF, so the
                         normal response to the request is accepted as well.  Init0 normalises the element to an
                         ordinary "req" element: malformed at dl without the leniency, well formed with it. *)
EXTENDS Integers, Sequences, FiniteSets, TLC

CONSTANTS Dev,          \* set of deviation names
          BufCap,       \* capacity of the request parser's BufReader (8192 in the code)
          HasTimeout    \* TRUE: threaded runtime with a connection timeout configured (408 on idle)

VARIABLES script,   \* sequence of script elements (requests and idle markers), fixed per behaviour
          sent,     \* bytes the client has written so far
          idling,   \* the client is in an idle wait (longer than the server's timeout)
          idles,    \* idle markers already consumed by the client
          cliShut,  \* the client has shut down its sending side
          taken,    \* bytes the server has taken off the socket
          pos,      \* offset of the next byte the server's parser will interpret
          cur,      \* index in script of the request being parsed/served (0: none)
          spc,      \* server pc
          open,     \* the server side of the connection is open
          out       \* responses written, in order
vars == <<script, sent, idling, idles, cliShut, taken, pos, cur, spc, open, out>>

-----------------------------------------------------------------------------
(* Script elements: one record shape for requests and idle markers.
   k: "req" | "idle";  hl: head length in bytes (first byte included);  dl: offset within the head at
   which a malformed request is detected (= hl when well formed);  bl: body bytes;  wf: well formed;
   m: method;  tgt: target;  conn: "ka" | "close" | "none";  ver: "1.0" | "1.1" *)
IsReq(e)  == e.k \in {"req", "trunc"}      \* elements that put bytes on the wire
IsTrunc(e) == e.k = "trunc"               \* hl = bytes sent before the half-close; wf = FALSE; dl carries the cut class for the harness
Size(e)   == IF IsReq(e) THEN e.hl + e.bl ELSE 0

RECURSIVE SumTo(_, _)
SumTo(s, i) == IF i = 0 THEN 0 ELSE SumTo(s, i - 1) + Size(s[i])
Start(s, i) == SumTo(s, i - 1)             \* offset of the first byte of element i
End(s, i)   == SumTo(s, i)
Total(s)    == SumTo(s, Len(s))

Panics(r)   == r.wf /\ r.tgt = "panic" /\ r.m # "OPTIONS"
Routed(r)   == r.tgt # "unrouted"
KeepAsked(r) == r.wf /\ r.conn = "ka"

(* The response the property demands for a request. One record shape:
   st status; ver echoed version; date/server present; cl Content-Length (-1: none); blen body bytes;
   cors: the route's CORS header present; stray: bytes after the body that belong to no response *)
RD(D, st, ver, cl, blen, cors, bid) ==
  [st |-> st, ver |-> ver, date |-> TRUE, server |-> TRUE, cl |-> cl, blen |-> blen, cors |-> cors, bid |-> bid,
   stray |-> IF "CrlfAfterBody" \in D /\ blen > 0 THEN 2 ELSE 0]
BareD(D, st, blen) ==     \* error page as produced by error_handler, nothing added
  [st |-> st, ver |-> "1.1", date |-> FALSE, server |-> FALSE, cl |-> -1, blen |-> blen, cors |-> FALSE, bid |-> 0,
   stray |-> IF "CrlfAfterBody" \in D /\ blen > 0 THEN 2 ELSE 0]

Len404 == 48   \* "<html><body><h1>404 Not Found</h1></body></html>"
Len400 == 50
Len408 == 54
BodyOf(r) == CASE r.tgt = "plain" -> 5
               [] r.tgt = "cors"  -> 4
               [] r.tgt = "echo"  -> r.bl
               [] r.tgt = "empty" -> 0
               [] OTHER -> 0

\* RespD(D, r, i): the response to script element i = r under the deviation set D; D = {} is what the
\* property demands, D = Dev is what the code (as modelled) writes.  bid identifies whose body comes
\* back: i when the echoing route returns request i's own body, 0 for fixed or empty bodies.
RespD(D, r, i) ==
  IF ~r.wf /\ ~(IsTrunc(r) /\ "EofEndsHead" \in D) THEN BareD(D, 400, Len400)
  ELSE IF r.m = "OPTIONS"
       THEN IF Routed(r)
            THEN RD(D, 204, IF "OptionsVersionFixed" \in D THEN "1.1" ELSE r.ver, -1, 0, r.tgt = "cors", 0)
            ELSE IF "Options404Bare" \in D THEN BareD(D, 404, Len404) ELSE RD(D, 404, r.ver, Len404, Len404, FALSE, 0)
       ELSE IF Routed(r) THEN RD(D, 200, r.ver, BodyOf(r), BodyOf(r), r.tgt = "cors",
                                  IF r.tgt = "echo" /\ r.bl > 0 THEN i ELSE 0)
            ELSE RD(D, 404, r.ver, Len404, Len404, FALSE, 0)
Demanded(r, i) == RespD({}, r, i)
Written(r, i)  == RespD(Dev, r, i)
R408D(D) == BareD(D, 408, Len408)
R408 == R408D(Dev)

\* Does the connection stay open after the response to r?
Keeps(r) == KeepAsked(r) /\ ~Panics(r)

\* What a client may observe instead of the demanded response record `e`.  For 400 and 408 the
\* property only fixes the status (and the close), see DESIGN 5a.
\* Where the statement leaves freedom the observation is free too: the wording (hence the length) of the
\* 404 page, provided the body is as long as its Content-Length; whether the empty answer to a routed OPTIONS is a
\* 204 or a 200 and whether it spells out Content-Length: 0 (either way it is self-delimiting).
Matches(obs, e) == \/ obs.st = e.st /\ e.st \in {400, 408}
                   \/ obs = e
                   \/ /\ e.st = 404 /\ obs.st = 404 /\ e.cl = e.blen
                      /\ obs.cl = obs.blen /\ [obs EXCEPT !.cl = e.cl, !.blen = e.blen] = e
                   \/ /\ e.st = 204 /\ obs.st \in {200, 204} /\ obs.cl \in {-1, 0}
                      /\ [obs EXCEPT !.st = 204, !.cl = -1] = e

RECURSIVE ExpFrom(_, _)
ExpFrom(s, i) ==
  IF i > Len(s) THEN <<>>
  ELSE LET r == s[i] IN
       IF ~IsReq(r) THEN IF HasTimeout THEN <<R408D({})>> ELSE ExpFrom(s, i + 1)
       ELSE IF Panics(r) THEN <<>>
       ELSE <<Demanded(r, i)>> \o (IF Keeps(r) THEN ExpFrom(s, i + 1) ELSE <<>>)
Expected(s) == ExpFrom(s, 1)

RECURSIVE OpenAfter(_, _)
OpenAfter(s, i) ==     \* is the connection still open once everything from element i on is done?
  IF i > Len(s) THEN TRUE
  ELSE LET r == s[i] IN
       IF ~IsReq(r) THEN IF HasTimeout THEN FALSE ELSE OpenAfter(s, i + 1)
       ELSE IF Panics(r) \/ ~Keeps(r) THEN FALSE ELSE OpenAfter(s, i + 1)
FinalOpen(s) == OpenAfter(s, 1)

\* index of the request that starts at offset p (0 if p is not the start of a request)
ReqAt(s, p) == LET C == { i \in 1..Len(s) : IsReq(s[i]) /\ Start(s, i) = p } IN
               IF C = {} THEN 0 ELSE CHOOSE i \in C : TRUE
IsBoundary(s, p) == p = Total(s) \/ ReqAt(s, p) # 0

\* bytes the client may send before it has to consume the next idle marker
IdleIdx(s) == { i \in 1..Len(s) : ~IsReq(s[i]) }
NthIdle(s, n) == CHOOSE i \in IdleIdx(s) : Cardinality({ j \in IdleIdx(s) : j <= i }) = n
Limit(s, n) == IF Cardinality(IdleIdx(s)) > n THEN Start(s, NthIdle(s, n + 1)) ELSE Total(s)

Min(a, b) == IF a < b THEN a ELSE b
Max(a, b) == IF a > b THEN a ELSE b

-----------------------------------------------------------------------------
\* "lf" elements (complete head, bare-LF line endings) become ordinary requests: see LenientLF above
Norm(s) == [i \in 1..Len(s) |->
              IF s[i].k = "lf"
              THEN IF "LenientLF" \in Dev THEN [s[i] EXCEPT !.k = "req", !.wf = TRUE, !.dl = s[i].hl]
                                          ELSE [s[i] EXCEPT !.k = "req", !.wf = FALSE]
              ELSE s[i]]
Init0(s) == /\ script = Norm(s)
            /\ sent = 0 /\ idling = FALSE /\ idles = 0 /\ cliShut = FALSE
            /\ taken = 0 /\ pos = 0 /\ cur = 0 /\ spc = "first" /\ open = TRUE /\ out = <<>>

(************************* client *************************)
Cli_Send(n) ==
  /\ ~idling /\ ~cliShut
  /\ n >= 1 /\ sent + n <= Limit(script, idles)
  /\ sent' = sent + n
  /\ UNCHANGED <<script, idling, idles, cliShut, taken, pos, cur, spc, open, out>>

Cli_IdleBegin ==
  /\ ~idling /\ ~cliShut
  /\ Cardinality(IdleIdx(script)) > idles /\ sent = Limit(script, idles)
  /\ idling' = TRUE
  /\ UNCHANGED <<script, sent, idles, cliShut, taken, pos, cur, spc, open, out>>

\* the client idles for much longer than the server's timeout
\* (a desynchronised parser - only reachable with ReadAheadLost - may sit in the middle of a "head" it will never
\* complete; the connection timeout only covers the wait for a first byte, so the idle wait can end with the
\* connection still open)
Cli_IdleEnd ==
  /\ idling
  /\ HasTimeout => (~open \/ spc = "desync")
  /\ idling' = FALSE /\ idles' = idles + 1
  /\ UNCHANGED <<script, sent, cliShut, taken, pos, cur, spc, open, out>>

Cli_Shut ==
  /\ ~idling /\ ~cliShut /\ sent = Total(script) /\ Cardinality(IdleIdx(script)) = idles
  /\ cliShut' = TRUE
  /\ UNCHANGED <<script, sent, idling, idles, taken, pos, cur, spc, open, out>>

(************************* server *************************)
Req == script[cur]

\* read_exact(1): first byte of the next request
Srv_ReadFirst ==
  /\ open /\ spc = "first" /\ pos < sent
  /\ pos' = pos + 1 /\ taken' = Max(taken, pos + 1)
  /\ cur' = ReqAt(script, pos)
  /\ spc' = IF ReqAt(script, pos) = 0 THEN "desync" ELSE "head"
  /\ UNCHANGED <<script, sent, idling, idles, cliShut, open, out>>

\* EOF while waiting for a request: silent close
Srv_Eof ==
  /\ open /\ spc = "first" /\ pos = sent /\ cliShut
  /\ open' = FALSE
  /\ UNCHANGED <<script, sent, idling, idles, cliShut, taken, pos, cur, spc, out>>

\* timed-out wait for the first byte of a request: 408 and close (threaded runtime with a timeout only)
Srv_Timeout408 ==
  /\ HasTimeout /\ open /\ spc = "first" /\ pos = sent /\ idling
  /\ out' = Append(out, R408) /\ open' = FALSE
  /\ UNCHANGED <<script, sent, idling, idles, cliShut, taken, pos, cur, spc>>

HeadNeed == Start(script, cur) + (IF IsTrunc(Req) THEN Req.hl ELSE Req.dl)
HeadEnd  == Start(script, cur) + Req.hl
ReqEnd   == End(script, cur)

\* one read() by the BufReader: k bytes, at most what has arrived and what the reader asks for.
\* Head: the buffer is refilled (capacity BufCap) whenever it is empty.  Body: read_exact through the
\* BufReader bypasses the buffer when it is empty and the remaining need is >= its capacity.
Srv_Fill(k) ==
  /\ open /\ spc \in {"head", "body"} /\ taken < sent
  /\ taken < (IF spc = "head" THEN HeadNeed ELSE ReqEnd)
  /\ LET room == IF spc = "body" /\ ReqEnd - taken >= BufCap THEN ReqEnd - taken ELSE BufCap IN
     k >= 1 /\ k <= Min(sent - taken, room)
  /\ taken' = taken + k
  /\ UNCHANGED <<script, sent, idling, idles, cliShut, pos, cur, spc, open, out>>

Srv_HeadDone ==
  /\ open /\ spc = "head" /\ taken >= HeadNeed /\ ~IsTrunc(Req)
  /\ IF ~Req.wf THEN /\ spc' = "err400" /\ pos' = HeadNeed
     ELSE /\ pos' = HeadEnd
          /\ spc' = IF Req.bl > 0 THEN "body" ELSE "dispatch"
  /\ UNCHANGED <<script, sent, idling, idles, cliShut, taken, cur, open, out>>

\* end of stream inside the head (the client has half-closed and everything it sent has been taken): the line reader
\* returns what it has, the head is incomplete => malformed, no dispatch.  EofEndsHead: taken for a complete head.
Srv_HeadEof ==
  /\ open /\ spc = "head" /\ IsTrunc(Req) /\ cliShut /\ sent = Total(script) /\ taken = sent
  /\ pos' = HeadEnd
  /\ spc' = IF "EofEndsHead" \in Dev THEN "dispatch" ELSE "err400"
  /\ UNCHANGED <<script, sent, idling, idles, cliShut, taken, cur, open, out>>

Srv_BodyDone ==
  /\ open /\ spc = "body" /\ taken >= ReqEnd
  /\ pos' = ReqEnd /\ spc' = "dispatch"
  /\ UNCHANGED <<script, sent, idling, idles, cliShut, taken, cur, open, out>>

\* a malformed request: 400, then the connection closes
Srv_Respond400 ==
  /\ open /\ spc = "err400"
  /\ out' = IF IsTrunc(Req) /\ "TruncSilentClose" \in Dev THEN out ELSE Append(out, Written(Req, cur))
  /\ open' = FALSE
  /\ UNCHANGED <<script, sent, idling, idles, cliShut, taken, pos, cur, spc>>

\* handler / OPTIONS branch / 404; a panicking handler kills the worker thread, the stream is dropped
Srv_Dispatch ==
  /\ open /\ spc = "dispatch"
  /\ IF Panics(Req) THEN open' = FALSE /\ spc' = "dead"
     ELSE open' = open /\ spc' = "write"
  /\ UNCHANGED <<script, sent, idling, idles, cliShut, taken, pos, cur, out>>

\* does the *code* keep the connection after this response?
CodeKeeps == IF Req.m = "OPTIONS" /\ ~Routed(Req) /\ Req.wf
             THEN IF "Options404Bare" \in Dev THEN KeepAsked(Req) ELSE Keeps(Req)
             ELSE Keeps(Req)

Srv_Write ==
  /\ open /\ spc = "write"
  /\ out' = Append(out, Written(Req, cur))
  /\ IF CodeKeeps
     THEN /\ open' = open
          /\ pos' = IF "ReadAheadLost" \in Dev THEN Max(taken, pos) ELSE pos
          /\ spc' = IF IsBoundary(script, pos') THEN "first" ELSE "desync"
          /\ cur' = 0
     ELSE /\ open' = FALSE /\ UNCHANGED <<pos, spc, cur>>
  /\ UNCHANGED <<script, sent, idling, idles, cliShut, taken>>

\* The parser has lost its place in the stream (only reachable with ReadAheadLost): what it reads is
\* the tail of some request. The bodies used in the conformance runs contain no line feed, so this can
\* only be rejected (400, close), time out (408) or wait for ever.
Srv_Desync400 ==
  /\ open /\ spc = "desync"
  /\ out' = Append(out, BareD(Dev, 400, Len400)) /\ open' = FALSE
  /\ UNCHANGED <<script, sent, idling, idles, cliShut, taken, pos, cur, spc>>
Srv_Desync408 ==
  /\ HasTimeout /\ open /\ spc = "desync" /\ idling
  /\ out' = Append(out, R408) /\ open' = FALSE
  /\ UNCHANGED <<script, sent, idling, idles, cliShut, taken, pos, cur, spc>>

(***************************************************************************)
(* Humphrey's monitor-event protocol for one connection, as a function of  *)
(* the model state (code: MonitorConfig.send calls in run / client_handler)*)
(*   CS  ConnectionSuccess (accept loop)   TPS ThreadPoolProcessStarted    *)
(*   OK / ERR / TO  one per response written (200 / other / 408)           *)
(*   KA  KeepAliveRespected after a response that keeps the connection     *)
(*   CC  ConnectionClosed - only when the loop is left by `break` (a       *)
(*       response that does not keep, 400, 408), not by `return` (client   *)
(*       EOF while waiting) and not by a panic                             *)
(***************************************************************************)
MonEv(st) == IF st = 200 THEN "OK" ELSE IF st = 408 THEN "TO" ELSE "ERR"
EndedByBreak == /\ ~open /\ spc # "dead"
                /\ \/ spc \in {"write", "err400", "desync"}
                   \/ (Len(out) > 0 /\ out[Len(out)].st = 408)
RECURSIVE MonBody(_)
MonBody(i) == IF i > Len(out) THEN <<>>
              ELSE <<MonEv(out[i].st)>>
                   \o (IF i < Len(out) \/ ~EndedByBreak THEN <<"KA">> ELSE <<>>)
                   \o MonBody(i + 1)
MonExpected == <<"CS", "TPS">> \o MonBody(1) \o (IF EndedByBreak THEN <<"CC">> ELSE <<>>)

ClientStep == \/ \E n \in 1..(Total(script) - sent) : Cli_Send(n)
              \/ Cli_IdleBegin \/ Cli_IdleEnd \/ Cli_Shut
ServerStep == \/ Srv_ReadFirst \/ Srv_Eof \/ Srv_Timeout408
              \/ \E k \in 1..(sent - taken) : Srv_Fill(k)
              \/ Srv_HeadDone \/ Srv_HeadEof \/ Srv_BodyDone \/ Srv_Respond400 \/ Srv_Dispatch \/ Srv_Write
              \/ Srv_Desync400 \/ Srv_Desync408
Next == ClientStep \/ ServerStep

-----------------------------------------------------------------------------
(* Properties (C01) *)
IsPrefixOf(a, b) == Len(a) <= Len(b) /\ \A i \in 1..Len(a) : Matches(a[i], b[i])
SameResponses(a, b) == Len(a) = Len(b) /\ IsPrefixOf(a, b)

\* everything owed has been written.  Named leniency (TruncSilentClose): for a head truncated by the client's
\* half-close the 400 may be missing - the server closed without a response.
SilentTrunc == /\ cur # 0 /\ IsTrunc(script[cur]) /\ spc = "err400" /\ ~open
               /\ Len(out) + 1 = Len(Expected(script)) /\ IsPrefixOf(out, Expected(script))
AllOwed == SameResponses(out, Expected(script)) \/ SilentTrunc

\* exactly one response per request, in order, each with the demanded fields - never more, never other
Inv_OutPrefix == IsPrefixOf(out, Expected(script))
\* bytes of one request are never dropped or interpreted as part of another
Inv_InSync == spc # "desync" /\ (spc \in {"head", "body", "dispatch", "write", "err400"} => cur # 0)
\* the server closes only when it is due: after a response that does not keep the connection, a 400,
\* a 408, a panic, or the client's EOF - and then everything owed has been written
Inv_CloseWhenDue ==
  ~open => /\ (AllOwed \/ (cliShut /\ spc = "first"))
           /\ ((~FinalOpen(script)) \/ cliShut)
\* ... and conversely stays open while the script says keep-alive
Inv_OpenWhileKept == (SameResponses(out, Expected(script)) /\ FinalOpen(script) /\ ~cliShut) => open
\* nothing is taken that was not sent; the parser never runs ahead of what was taken
Inv_Sane == taken <= sent /\ pos <= Max(taken, pos) /\ sent <= Total(script)

\* every request is eventually answered, whatever the segmentation
Live_AllAnswered == <>[]AllOwed
Live_ClosedOrWaiting == <>[](open => (spc = "first" /\ pos = sent))
=============================================================================
