#!/usr/bin/env python3
"""Prints the markdown table of seeded changes (seeded/*/meta.json) used in DESIGN.md section 10."""
import json, os, sys
ROOT = os.path.dirname(os.path.dirname(os.path.abspath(__file__)))
rows = []
for name in sorted(os.listdir(os.path.join(ROOT, "seeded"))):
    mp = os.path.join(ROOT, "seeded", name, "meta.json")
    if not os.path.exists(mp):
        continue
    m = json.load(open(mp))
    c = m.get("confirmed", {})
    det = c.get("detected")
    note = m.get("strengthened", "")
    rc = m.get("reclassified")
    if rc and not det and not rc.get("to"):
        rows.append("| `%s` | %s | %s | %s | %s |" % (name, m["property"], (m.get("summary") or "").replace("|", "/")[:230],
                                                  (m.get("needs") or "").replace("|", "/").replace("\n", " ")[:200],
                                                  "quiet, and meant to be: " + rc["why"].replace("|", "/")[:420]))
        continue
    if rc and not det:
        rows.append("| `%s` | %s | %s | %s | %s |" % (name, m["property"], (m.get("summary") or "").replace("|", "/")[:230],
                                                  (m.get("needs") or "").replace("|", "/").replace("\n", " ")[:200],
                                                  "quiet in %s (SPEC-DRIFT only): beyond %s's statement; **detected** by %s quick (%d violations) - %s" % (m["property"], m["property"], rc["to"], rc.get("violations", 0), rc["why"].replace("|", "/")[:400])))
        continue
    rows.append("| `%s` | %s | %s | %s | %s |" % (name, m["property"], (m.get("summary") or "").replace("|", "/")[:230],
                                              (m.get("needs") or "").replace("|", "/").replace("\n", " ")[:200],
                                              ("**detected** (%s, %ss)" % (m["property"] + " quick", int(c.get("check_wall_s", 0))) if det else "MISSED") + ((" - " + note) if note else "")))
print("| seeded change | property | what it does | what it needs to manifest | result |")
print("|---|---|---|---|---|")
print("\n".join(rows))
