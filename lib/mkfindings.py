#!/usr/bin/env python3
"""Prints a markdown table of KNOWN_FINDINGS.txt (used in DESIGN.md section 4.3)."""
import os, re
ROOT = os.path.dirname(os.path.dirname(os.path.abspath(__file__)))
rows = []
for line in open(os.path.join(ROOT, "KNOWN_FINDINGS.txt")):
    line = line.strip()
    if line.startswith("open:"):
        m = re.search(r"property=(\w+)\s+dev=(\w+)\s+site=(\S+)\s+example=(.*?)\s+reason=(.*)$", line)
        if m:
            rows.append((m.group(1), "open", m.group(2), "", (m.group(4).strip('"') + " — not repaired: " + m.group(5).strip('"')).replace("|", "/")))
    elif line.startswith("fixed:"):
        m = re.search(r"property=(\w+)\s+(\w+)\s+dev=(\w+)\s+(.*)$", line)
        if m:
            rows.append((m.group(1), "fixed", m.group(3), m.group(2), m.group(4).replace("|", "/")))
rows.sort(key=lambda r: (r[0], r[1] != "open", r[2]))
print("| property | state | deviation | fix commit | what failed |")
print("|---|---|---|---|---|")
for r in rows:
    print("| %s | %s | `%s` | %s | %s |" % (r[0], r[1], r[2], r[3], r[4][:260]))
print()
print("%d fixed, %d open" % (sum(1 for r in rows if r[1] == "fixed"), sum(1 for r in rows if r[1] == "open")))
