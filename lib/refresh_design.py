#!/usr/bin/env python3
"""Refreshes the generated tables in DESIGN.md (findings, seeded changes)."""
import os, re, subprocess
ROOT = os.path.dirname(os.path.dirname(os.path.abspath(__file__)))
p = os.path.join(ROOT, "DESIGN.md")
s = open(p).read()
def fill(s, tag, text):
    a = s.index("<!-- %s-BEGIN -->" % tag) + len("<!-- %s-BEGIN -->" % tag)
    b = s.index("<!-- %s-END -->" % tag)
    return s[:a] + "\n" + text.strip() + "\n" + s[b:]
s = fill(s, "FINDINGS-TABLE", subprocess.run(["python3", os.path.join(ROOT, "lib", "mkfindings.py")], stdout=subprocess.PIPE, text=True).stdout)
s = fill(s, "SEED-TABLE", subprocess.run(["python3", os.path.join(ROOT, "lib", "mkseedtable.py")], stdout=subprocess.PIPE, text=True).stdout)
open(p, "w").write(s)
print("DESIGN.md tables refreshed")
