#!/usr/bin/env python3
"""Refreshes the generated tables in DESIGN.md (findings, seeded changes)."""
import os, re, subprocess
ROOT = os.path.dirname(os.path.dirname(os.path.abspath(__file__)))
p = os.path.join(ROOT, "DESIGN.md")
s = open(p).read()
def fill(s, tag, text):
    a = s.index("<!-- %s-BEGIN -->" % tag) + len("<!-- %s-BEGIN -->" % tag)
    b = s.index("<!-- %s-END -->" % tag)
    return s[:a] + "\n" + text.strip() + "\n" + s[b:]
s = fill(s, "FINDINGS-TABLE", subprocess.run(["python3", os.path.join(ROOT, "lib", "mkfindings.py")], stdout=subprocess.PIPE, text=True).stdout)
s = fill(s, "BENIGN-TABLE", subprocess.run(["python3", os.path.join(ROOT, "lib", "mkbenigntable.py")], stdout=subprocess.PIPE, text=True).stdout)
s = fill(s, "SEED-TABLE", subprocess.run(["python3", os.path.join(ROOT, "lib", "mkseedtable.py")], stdout=subprocess.PIPE, text=True).stdout)
import json, sys
sys.path.insert(0, os.path.join(ROOT, "lib"))
import manifest_data as md
rows = ["| id | level | spec directories | harness bins | last evidence: tier, TLC distinct states, cases run on the real code, wall | open deviations attributed |", "|---|---|---|---|---|---|"]
for pid in ["C%02d" % i for i in range(1, 21)]:
    c = md.CHECKS.get(pid)
    if not c:
        rows.append("| %s | not claimed | | | | |" % pid)
        continue
    evp = os.path.join(ROOT, "evidence", pid + ".json")
    ev = json.load(open(evp)) if os.path.exists(evp) else None
    cov = ev["coverage"] if ev else {}
    bins = ", ".join(c.get("bins", []) + [b + " (tokio)" for b in c.get("tokio_bins", [])]) or "generated crate gen/"
    rows.append("| %s | %s | %s | %s | %s | %s |" % (pid, c["level"], ", ".join("spec/" + d for d in c.get("specs", [])), bins,
        ("%s, %s states, %s cases, %ss" % (ev["tier"], cov.get("states", "-"), max(cov.get("evaluations", 0), cov.get("traces_validated_against_impl", 0)), int(ev["wall_s"]))) if ev else "-",
        ", ".join(sorted((ev or {}).get("known_findings_hit", {}))) or "-"))
s = fill(s, "STATUS-TABLE", "\n".join(rows))
open(p, "w").write(s)
print("DESIGN.md tables refreshed")
