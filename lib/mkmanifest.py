#!/usr/bin/env python3
"""Regenerates MANIFEST.json from lib/manifest_data.py (single source of truth for the checks table)."""
import json, os, subprocess, sys
ROOT = os.path.dirname(os.path.dirname(os.path.abspath(__file__)))
sys.path.insert(0, os.path.join(ROOT, "lib"))
import manifest_data as md

ALL = ["C%02d" % i for i in range(1, 21)]
checks = []
for pid in ALL:
    if pid in md.CHECKS:
        c = md.CHECKS[pid]
        checks.append({
            "property_id": pid,
            "quick_cmd": "bin/check %s --tier quick" % pid,
            "thorough_cmd": "bin/check %s --tier thorough" % pid,
            "evidence_file": "/verif/evidence/%s.json" % pid,
            "replay_cmd_template": "bin/check %s --replay {path}" % pid,
            "engine": "tlc+hv",
            "level_claimed": {"category": c["level"], "text": c["text"], "design_ref": c.get("ref", "DESIGN.md section 5")},
            "level_note": c["note"],
            "technique": c["technique"],
        })
na = [{"property_id": p, "reason": md.NOT_APPLICABLE.get(p, "check not built yet in this round; see DESIGN.md section 5 for the planned TLA+ model")}
      for p in ALL if p not in md.CHECKS]
hooks = subprocess.run(["git", "-C", "/repo", "log", "--format=%H %s"], stdout=subprocess.PIPE, text=True).stdout.splitlines()
hook_commits = [l.split()[0] for l in hooks if l.split(" ", 1)[1].startswith("verif-hook:")]
m = {
    "version": 1,
    "setup_cmd": "bin/setup",
    "hooks": {
        "guard": "humphrey_verif",
        "enable": "RUSTFLAGS/--cfg humphrey_verif via /verif/harness/.cargo/config.toml (rustflags = [\"--cfg\", \"humphrey_verif\"]); off by default in /repo",
        "baseline_off_cmd": "cd /repo && cargo test --workspace --no-fail-fast --offline",
        "source_commits": hook_commits,
        "add_only": True,
    },
    "engines": [
        {"name": "tlc+hv", "path": "bin/check", "serves_properties": sorted(md.CHECKS),
         "kind_free_text": "explicit TLA+ specifications under spec/ checked by TLC; conformance by replaying TLC-generated vectors/behaviours into the real crates (harness/) and by validating logs recorded from the real code against trace specifications"},
    ],
    "checks": checks,
    "not_applicable": na,
    "notes": md.NOTES,
}
json.dump(m, open(os.path.join(ROOT, "MANIFEST.json"), "w"), indent=1)
print("MANIFEST.json: %d checks, %d not_applicable" % (len(checks), len(na)))
