#!/usr/bin/env python3
"""Maintenance helper: pull_text.py <PROP> <agent-transcript.jsonl> - takes the last assistant message of a builder's
transcript, finds the JSON object {"technique","text","note"} in it and stores it in lib/manifest_text.json
(overrides applied by lib/manifest_data.py)."""
import json, sys, os, re, html
ROOT = os.path.dirname(os.path.dirname(os.path.abspath(__file__)))
P = os.path.join(ROOT, "lib", "manifest_text.json")


def last_text(path):
    txt = None
    for line in open(path):
        try:
            r = json.loads(line)
        except Exception:
            continue
        if r.get("type") != "assistant":
            continue
        parts = [c.get("text", "") for c in r.get("message", {}).get("content", []) if c.get("type") == "text"]
        if any(p.strip() for p in parts):
            txt = "\n".join(parts)
    return txt


def main():
    prop, path = sys.argv[1], sys.argv[2]
    t = html.unescape(last_text(path))
    i = t.find('{"technique"')
    if i < 0:
        i = t.find('{')
    obj, _ = json.JSONDecoder().raw_decode(t[i:])
    keep = {k: obj[k].strip() for k in ("technique", "text", "note") if k in obj and isinstance(obj[k], str)}
    d = json.load(open(P)) if os.path.exists(P) else {}
    d[prop] = keep
    json.dump(d, open(P, "w"), indent=1, sort_keys=True, ensure_ascii=False)
    print(prop, {k: len(v) for k, v in keep.items()})


main()
