#!/usr/bin/env python3
"""Prints the markdown table of property-preserving changes (benign/*/meta.json) used in DESIGN.md section 10.2."""
import json, os
ROOT = os.path.dirname(os.path.dirname(os.path.abspath(__file__)))
rows = []
d = os.path.join(ROOT, "benign")
for name in sorted(os.listdir(d)) if os.path.isdir(d) else []:
    mp = os.path.join(d, name, "meta.json")
    if not os.path.exists(mp):
        continue
    m = json.load(open(mp))
    c = m.get("confirmed", {})
    prop = m.get("property") or name.split("-")[0]
    res = ("**quiet** (exit 0%s, %ss)" % (", %d drift line(s)" % len(c.get("drift_lines", [])) if c.get("drift_lines") else "", int(c.get("check_wall_s", 0)))
           if c.get("quiet") else "ALARM (exit %s)" % c.get("check_rc"))
    note = m.get("corrected", "")
    if m.get("reclassified"):
        res = "alarm (exit %s) - **and rightly so**" % c.get("check_rc")
        note = m["reclassified"]
    rows.append("| `%s` | %s | %s | %s | %s |" % (name, prop, m.get("kind", ""), (m.get("summary") or "").replace("|", "/").replace("\n", " ")[:260],
                                              res + ((" - " + note) if note else "")))
print("| change | property | kind | what it does | result of the property's quick check |")
print("|---|---|---|---|---|")
print("\n".join(rows))
