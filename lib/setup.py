import os, subprocess, sys, glob
ROOT = os.path.dirname(os.path.dirname(os.path.abspath(__file__)))
sys.path.insert(0, os.path.join(ROOT, "lib"))
import manifest_data as md, vlib
fail = 0
bins, tbins, specs = set(), set(), set()
for pid, c in md.CHECKS.items():
    bins.update(c.get("bins", []))
    tbins.update(c.get("tokio_bins", []))
    specs.update(c.get("specs", []))
for d, bs in ((vlib.HARNESS, bins), (vlib.HARNESS_TOKIO, tbins)):
    if not bs or not os.path.isdir(d):
        continue
    cmd = ["cargo", "build", "--release", "--offline", "-q"] + [x for b in sorted(bs) for x in ("--bin", b)]
    p = subprocess.run(cmd, cwd=d, env=vlib.cargo_env(), stdout=subprocess.PIPE, stderr=subprocess.STDOUT, text=True)
    if p.returncode != 0:
        print("BUILD FAILED in", d)
        print("\n".join(l for l in p.stdout.splitlines() if not l.startswith("warning"))[-4000:])
        fail = 1
# the TLS harness (its own crate: humphrey with feature tls) - prebuilt here so that the first C01 run does not pay for it;
# a failure is reported but does not fail the setup (the TLS part of C01 is a growth part and cannot fail C01)
try:
    sys.path.insert(0, os.path.join(ROOT, "checks"))
    import c01_tls
    c01_tls.build_tls(False)
    c01_tls.build_tls(True)
except Exception as e:   # noqa
    print("note: harness-tls not prebuilt:", str(e)[:300])
# the plugin side of C15 (growth part): server with feature `plugins`, the logging test plugin, the PHP plugin
try:
    import c15_plugins
    c15_plugins.build_all()
except Exception as e:   # noqa
    print("note: plugin artefacts not prebuilt:", str(e)[:300])
for sd in sorted(specs):
    for f in sorted(glob.glob(os.path.join(ROOT, "spec", sd, "*.tla"))):
        ok, out = vlib.sany(f)
        if not ok:
            print("SANY FAILED:", f)
            print(out[-1500:])
            fail = 1
print("setup ok" if not fail else "setup FAILED")
sys.exit(fail)
