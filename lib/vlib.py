"""Shared plumbing for /verif/bin/check: TLC invocation, harness build, evidence, known findings.

Exit codes used by every check: 0 = held on everything explored (known findings are printed),
1 = at least one violation not listed as an open known finding (VIOLATION line + replay file),
2 = tool / build / timeout error (never reported as a violation).
"""
import fcntl
import json
import os
import re
import shutil
import subprocess
import sys
import time
import uuid

ROOT = os.path.dirname(os.path.dirname(os.path.abspath(__file__)))
REPO = os.environ.get("VERIF_REPO", "/repo")
SPEC = os.path.join(ROOT, "spec")
WORK = os.path.join(ROOT, ".work")
HARNESS = os.path.join(ROOT, "harness")
HARNESS_TOKIO = os.path.join(ROOT, "harness-tokio")
EVIDENCE = os.path.join(ROOT, "evidence")
REPLAYS = os.path.join(ROOT, "replays")
TLA_CP = "/opt/veriftools/tla/tla2tools.jar:/opt/veriftools/tla/CommunityModules-deps.jar"


class ToolError(Exception):
    pass


def log(*a):
    print(*a, file=sys.stderr, flush=True)


def seed():
    try:
        return int(os.environ.get("VERIF_SEED", "1"))
    except ValueError:
        return 1


# --------------------------------------------------------------------------------------------
# TLC
# --------------------------------------------------------------------------------------------

class TLCResult:
    def __init__(self):
        self.rc = None
        self.out = ""
        self.generated = 0
        self.distinct = 0
        self.depth = 0
        self.prints = []          # decoded JSON values printed with PrintT(ToJson(..))
        self.raw_prints = []      # other printed lines (tuples etc.)
        self.violation = None     # "invariant X" / "temporal" / "deadlock" / "postcondition" / None
        self.violated_name = None
        self.coverage = {}        # action name -> (distinct, total)
        self.wall = 0.0
        self.trace = []           # counterexample states (raw text blocks)

    @property
    def ok(self):
        return self.rc == 0 and self.violation is None


_ACTION_COV = re.compile(r"^<(\w+) line (\d+), col \d+ to line \d+, col \d+ of module (\w+)(?: \([\d ]+\))?>: (\d+):(\d+)")


def run_tlc(module, cfg, cwd, workers=4, simulate=None, depth=None, env=None, timeout=900,
            coverage=False, deque=False, heap="4g", extra=None, work_id="tlc", seed_val=None,
            allow_violation=False, dump=None):
    """Run TLC on `module`.tla with `cfg` in directory `cwd`."""
    os.makedirs(WORK, exist_ok=True)
    meta = os.path.join(WORK, "%s-%d-%s" % (work_id, os.getpid(), uuid.uuid4().hex[:12]))
    jtmp = meta + "-tmp"
    os.makedirs(jtmp, exist_ok=True)
    cmd = ["timeout", str(timeout), "java", "-Xss1g", "-Xmx" + heap, "-XX:+UseParallelGC", "-Djava.io.tmpdir=" + jtmp]
    if deque:
        cmd.append("-Dtlc2.tool.queue.IStateQueue=StateDeque")
    cmd += ["-cp", TLA_CP, "tlc2.TLC", "-workers", str(workers), "-metadir", meta,
            "-noGenerateSpecTE", "-nowarning"]
    if coverage:
        cmd += ["-coverage", "1"]
    if simulate is not None:
        cmd += ["-simulate", "num=%d" % simulate]
        if depth:
            cmd += ["-depth", str(depth)]
        if seed_val is not None:
            cmd += ["-seed", str(seed_val)]
    if dump:
        cmd += ["-dump", "dot,actionlabels", dump]
    if extra:
        cmd += extra
    cmd += ["-config", cfg, module]
    e = dict(os.environ)
    e.pop("JAVA_TOOL_OPTIONS", None)
    if env:
        e.update({k: str(v) for k, v in env.items()})
    t0 = time.time()
    try:
        p = subprocess.run(cmd, cwd=cwd, env=e, stdout=subprocess.PIPE, stderr=subprocess.STDOUT,
                           text=True, errors="replace")
    finally:
        shutil.rmtree(meta, ignore_errors=True)
        shutil.rmtree(jtmp, ignore_errors=True)
    r = TLCResult()
    r.wall = time.time() - t0
    r.rc = p.returncode
    r.out = p.stdout
    in_trace = False
    for line in p.stdout.split("\n"):      # not splitlines(): U+0085 / U+2028 inside printed JSON strings are not line breaks
        if line.startswith('"{') or line.startswith('"['):
            try:
                r.prints.append(json.loads(json.loads(line)))
                continue
            except Exception:
                pass
        if line.startswith("<<") and not in_trace:
            r.raw_prints.append(line)
            continue
        m = re.match(r"^(\d+) states generated, (\d+) distinct states found", line)
        if m:
            r.generated = int(m.group(1))
            r.distinct = int(m.group(2))
            continue
        m = re.match(r"^The depth of the complete state graph search is (\d+)", line)
        if m:
            r.depth = int(m.group(1))
            continue
        m = re.match(r"^Error: Invariant (\w+) is violated", line)
        if m:
            r.violation = "invariant"
            r.violated_name = m.group(1)
            in_trace = True
            continue
        if line.startswith("Error: Action property"):
            r.violation = "action_property"
            m = re.search(r"Action property (\w+)", line)
            r.violated_name = m.group(1) if m else None
            in_trace = True
            continue
        if line.startswith("Error: Temporal properties were violated"):
            r.violation = "temporal"
            in_trace = True
            continue
        m = re.match(r"^Error: Temporal property (\w+) was violated", line)
        if m:
            r.violation = "temporal"
            r.violated_name = m.group(1)
            in_trace = True
            continue
        if line.startswith("Error: Deadlock reached"):
            r.violation = "deadlock"
            in_trace = True
            continue
        if "Error: Postcondition" in line or "The postcondition" in line.lower():
            r.violation = "postcondition"
            continue
        if line.startswith("Error: Assumption"):
            r.violation = "assumption"
            continue
        m = _ACTION_COV.match(line)
        if m:
            prev = r.coverage.get(m.group(1), (0, 0))
            r.coverage[m.group(1)] = (prev[0] + int(m.group(5)), prev[1] + int(m.group(4)))
            continue
        if in_trace:
            r.trace.append(line)
    if r.rc == 124:
        raise ToolError("TLC timed out after %ss on %s/%s" % (timeout, module, cfg))
    if r.violation is None and r.rc != 0:
        tail = "\n".join(p.stdout.splitlines()[-40:])
        raise ToolError("TLC failed rc=%s on %s/%s\n%s" % (r.rc, module, cfg, tail))
    if r.violation is not None and not allow_violation:
        pass  # caller decides
    return r


def sany(path):
    libs = ":".join(sorted(os.path.join(SPEC, d) for d in os.listdir(SPEC) if os.path.isdir(os.path.join(SPEC, d))))
    jtmp = os.path.join(WORK, "sany-tmp-%d" % os.getpid())
    os.makedirs(jtmp, exist_ok=True)
    p = subprocess.run(["java", "-DTLA-Library=" + libs, "-Djava.io.tmpdir=" + jtmp, "-cp", TLA_CP, "tla2sany.SANY", os.path.basename(path)],
                       cwd=os.path.dirname(path), stdout=subprocess.PIPE, stderr=subprocess.STDOUT, text=True)
    shutil.rmtree(jtmp, ignore_errors=True)
    ok = p.returncode == 0 and "Semantic errors" not in p.stdout and "Fatal errors" not in p.stdout \
        and "*** Errors" not in p.stdout and "Parsing or semantic analysis failed" not in p.stdout
    return ok, p.stdout


# --------------------------------------------------------------------------------------------
# Harness build / run
# --------------------------------------------------------------------------------------------

def alt_tag(path):
    """Alternate checkouts (VERIF_REPO) get their own cargo target directories: cargo's artefact names are
    workspace-relative, so two checkouts sharing one directory can leave each other's binaries behind."""
    import hashlib
    return hashlib.sha1(os.path.abspath(path).encode()).hexdigest()[:10]


def cargo_env():
    e = dict(os.environ)
    e["CARGO_NET_OFFLINE"] = "true"
    e.pop("RUSTFLAGS", None)
    return e


def build_harness(bins=None, tokio=False, jobs=None):
    """Build the harness (release profile) from /repo's current working tree. Returns the bin directory."""
    d = HARNESS_TOKIO if tokio else HARNESS
    os.makedirs(WORK, exist_ok=True)
    lockf = open(os.path.join(WORK, "build-tokio.lock" if tokio else "build.lock"), "w")
    fcntl.flock(lockf, fcntl.LOCK_EX)
    try:
        cmd = ["cargo", "build", "--release", "--offline", "-q"]
        alt = os.environ.get("VERIF_REPO")
        target = os.path.join(d, "target")
        if alt and os.path.abspath(alt) != "/repo":
            # development aid: build against another checkout (a scratch worktree with a seeded change) without
            # touching /repo; cargo's `paths` override replaces the path dependencies by name
            crates = ["humphrey", "humphrey-ws", "humphrey-json", "humphrey-json-derive", "humphrey-auth", "humphrey-server"]
            paths = ",".join('"%s"' % os.path.join(os.path.abspath(alt), c) for c in crates)
            target = os.path.join(WORK, "target-alt-" + alt_tag(alt) + ("-tokio" if tokio else ""))
            cmd += ["--config", "paths=[%s]" % paths, "--target-dir", target]
        if bins:
            for b in bins:
                cmd += ["--bin", b]
        if jobs:
            cmd += ["-j", str(jobs)]
        p = subprocess.run(cmd, cwd=d, env=cargo_env(), stdout=subprocess.PIPE, stderr=subprocess.STDOUT, text=True)
        if p.returncode != 0:
            raise ToolError("harness build failed:\n" + "\n".join(p.stdout.splitlines()[-60:]))
    finally:
        fcntl.flock(lockf, fcntl.LOCK_UN)
        lockf.close()
    return os.path.join(target, "release")


def run_bin(path, args, stdin_data=None, timeout=1800, env=None, cwd=None):
    e = dict(os.environ)
    e["VERIF_SEED"] = str(seed())
    e.setdefault("RUST_BACKTRACE", "0")
    if env:
        e.update({k: str(v) for k, v in env.items()})
    # a harness (with the code under test inside it) that runs away must fail by itself - an allocation error, i.e.
    # SIGABRT - instead of making the kernel's OOM killer shoot other checks' processes (seen: 61 GB in one harness)
    gb = int(os.environ.get("VERIF_HARNESS_AS_GB", "32"))

    def _limit():
        import resource
        resource.setrlimit(resource.RLIMIT_AS, (gb << 30, gb << 30))
    try:
        p = subprocess.run([path] + list(args), input=stdin_data, stdout=subprocess.PIPE, stderr=subprocess.PIPE,
                           text=True, timeout=timeout, env=e, cwd=cwd, errors="replace", preexec_fn=_limit)
    except subprocess.TimeoutExpired:
        raise ToolError("harness %s %s timed out after %ss" % (path, args, timeout))
    return p


def parse_jsonl(text):
    out = []
    for line in text.split("\n"):      # not splitlines(): U+2028 etc. inside JSON strings are not line breaks
        line = line.strip(" \t\r")
        if line.startswith("{"):
            try:
                out.append(json.loads(line))
            except Exception:
                pass
    return out


# --------------------------------------------------------------------------------------------
# Known findings
# --------------------------------------------------------------------------------------------

class Known:
    """KNOWN_FINDINGS.txt: lines `open: property=Cxx dev=<Name> site=... example=...` and
    `fixed: property=Cxx <commit> <what failed>`.  Only `open:` lines suppress anything and only for
    the exact (property, dev) pair; the file is never written at run time."""

    def __init__(self, path=None):
        self.open = {}   # (prop, dev) -> line
        self.fixed = []
        path = path or os.path.join(ROOT, "KNOWN_FINDINGS.txt")
        if os.path.exists(path):
            for line in open(path):
                line = line.strip()
                if line.startswith("open:"):
                    m = re.search(r"property=(\w+)\s+dev=(\w+)", line)
                    if m:
                        self.open[(m.group(1), m.group(2))] = line
                elif line.startswith("fixed:"):
                    self.fixed.append(line)

    def is_open(self, prop, dev):
        return (prop, dev) in self.open


# --------------------------------------------------------------------------------------------
# Check context: collects results, writes evidence, prints VIOLATION / KNOWN-FINDING lines
# --------------------------------------------------------------------------------------------

CURRENT_CTX = None   # the check in progress (bin/check reports its violations even if a later step fails)


class Ctx:
    def __init__(self, prop, tier, level):
        global CURRENT_CTX
        CURRENT_CTX = self
        self.prop = prop
        self.tier = tier
        self.level = level
        self.t0 = time.time()
        self.known = Known()
        self.violations = []      # (what, replay_obj)
        self.known_hits = {}      # dev -> (what, count)
        self.drifts = []          # (area, what, replay_obj): beyond the property, never gates
        self.cov = {"evaluations": 0, "distinct_nontrivial": 0, "rule": "", "samples": [],
                    "states": 0, "transitions": 0, "traces_validated_against_impl": 0,
                    "exhaustive": False, "tlc_runs": [], "parts": {}}
        self.assumptions = []
        self.seed = seed()

    # --- accounting ---
    def add_tlc(self, name, r, note=""):
        self.cov["states"] += r.distinct
        self.cov["transitions"] += r.generated
        self.cov["tlc_runs"].append({"name": name, "distinct": r.distinct, "generated": r.generated,
                                     "depth": r.depth, "wall_s": round(r.wall, 2),
                                     "result": r.violation or "ok", "note": note,
                                     "actions_covered": {k: v[1] for k, v in r.coverage.items()}})

    def add_part(self, name, **kw):
        self.cov["parts"][name] = kw

    def sample(self, s, limit=8):
        if len(self.cov["samples"]) < limit:
            self.cov["samples"].append(s)

    # --- verdicts ---
    def violation(self, what, replay_obj, dev=None):
        """Report a mismatch. If `dev` names a deviation listed `open:` for this property the case is a
        known finding; otherwise it is a violation."""
        if dev is not None and self.known.is_open(self.prop, dev):
            w, c = self.known_hits.get(dev, (what, 0))
            self.known_hits[dev] = (w, c + 1)
            return False
        self.violations.append((what, replay_obj))
        return True

    def drift(self, area, what, replay_obj=None):
        """Report a disagreement between the code and a part of the specification that goes BEYOND what this
        property states (spec growth: CORS, monitor events, the server application, ...). It is printed as a
        SPEC-DRIFT line, kept with a replay file and counted in the evidence, but it is not a violation of the
        property and does not change the exit code."""
        self.drifts.append((area, what, replay_obj))
        return False

    def require_tlc_ok(self, name, r):
        if r.violation is not None:
            self.violations.append(("TLC %s: %s %s violated on the model" % (name, r.violation, r.violated_name or ""),
                                    {"kind": "tlc", "run": name, "violation": r.violation,
                                     "name": r.violated_name, "trace": r.trace[:400]}))

    def require_cover(self, name, r, actions):
        # an action counts as exercised when it was taken at all (it may only lead to states already known)
        missing = [a for a in actions if max(r.coverage.get(a, (0, 0))) == 0]
        if missing:
            raise ToolError("vacuity guard: TLC run %s never took action(s) %s" % (name, missing))

    def finish(self):
        wall = time.time() - self.t0
        os.makedirs(EVIDENCE, exist_ok=True)
        os.makedirs(REPLAYS, exist_ok=True)
        for dev, (what, c) in sorted(self.known_hits.items()):
            print("KNOWN-FINDING: property=%s %s: %s (%d case(s) this run)" % (self.prop, dev, what, c), flush=True)
        rc = 0
        replay_paths = []
        for i, (what, obj) in enumerate(self.violations[:20]):
            path = os.path.join(REPLAYS, "%s-%s-%d.json" % (self.prop, self.tier, i))
            with open(path, "w") as f:
                json.dump({"property": self.prop, "what": what, "case": obj}, f, indent=1, default=str)
            replay_paths.append(path)
            print("VIOLATION property=%s replay=%s" % (self.prop, path), flush=True)
            log("  -> " + what[:600])
            rc = 1
        for i, (area, what, obj) in enumerate(self.drifts[:20]):
            path = os.path.join(REPLAYS, "%s-%s-drift-%d.json" % (self.prop, self.tier, i))
            with open(path, "w") as f:
                json.dump({"property": self.prop, "beyond_property": True, "area": area, "what": what, "case": obj}, f, indent=1, default=str)
            print("SPEC-DRIFT: area=%s (beyond what %s states; does not gate) %s replay=%s" % (area, self.prop, what[:300], path), flush=True)
        if self.drifts:
            self.cov["parts"]["spec growth drift (beyond the property, not gating)"] = {
                "count": len(self.drifts), "first": [{"area": a, "what": w[:400]} for a, w, _ in self.drifts[:5]]}
        ev = {
            "property_id": self.prop,
            "tier": self.tier,
            "seed": self.seed,
            "level": self.level,
            "coverage": self.cov,
            "assumptions": self.assumptions,
            "wall_s": round(wall, 2),
            "violations": len(self.violations),
            "known_findings_hit": {d: c for d, (w, c) in self.known_hits.items()},
        }
        with open(os.path.join(EVIDENCE, "%s.json" % self.prop), "w") as f:
            json.dump(ev, f, indent=1, default=str)
        log("[%s %s] evaluations=%d nontrivial=%d states=%d traces=%d violations=%d known=%s wall=%.1fs" % (
            self.prop, self.tier, self.cov["evaluations"], self.cov["distinct_nontrivial"], self.cov["states"],
            self.cov["traces_validated_against_impl"], len(self.violations), list(self.known_hits), wall))
        return rc


class GrowthCtx:
    """Proxy handed to a spec-growth part wired into a property's check (CORS in C01, the server application in
    C15, ...): everything is forwarded to the real Ctx (coverage counters, add_tlc, add_part, samples), except that a
    mismatch found by the part is reported as drift (see Ctx.drift), never as a violation of the property."""

    def __init__(self, ctx, area, gate_kinds=()):
        object.__setattr__(self, "_ctx", ctx)
        object.__setattr__(self, "_area", area)
        object.__setattr__(self, "_gate", set(gate_kinds))   # replay-object kinds that ARE within the property

    def __getattr__(self, k):
        if k == "violations":   # "is this part clean so far?" (gates the part's own self-tests)
            return list(self._ctx.violations) + [(w, o) for a, w, o in self._ctx.drifts if a == self._area]
        return getattr(self._ctx, k)

    def __setattr__(self, k, v):
        setattr(self._ctx, k, v)

    def violation(self, what, replay_obj, dev=None):
        if dev is not None and self._ctx.known.is_open(self._ctx.prop, dev):
            return self._ctx.violation(what, replay_obj, dev=dev)       # an open finding seen through this part
        if isinstance(replay_obj, dict) and replay_obj.get("kind") in self._gate:
            return self._ctx.violation(what, replay_obj, dev=dev)
        return self._ctx.drift(self._area, what, replay_obj)

    def require_tlc_ok(self, name, r):
        if r.violation is not None:
            self._ctx.drift(self._area, "TLC %s: %s %s violated on the model" % (name, r.violation, r.violated_name or ""),
                            {"kind": "tlc", "run": name, "violation": r.violation, "name": r.violated_name, "trace": r.trace[:400]})


def run_growth(ctx, area, fn, *args, gate_kinds=()):
    """Runs a growth part; neither a mismatch nor trouble inside it can fail the property's check - except mismatches
    whose replay object is of a kind listed in gate_kinds (the slice of the part that lies within the property)."""
    try:
        return fn(GrowthCtx(ctx, area, gate_kinds), *args)
    except ToolError as e:
        ctx.drift(area, "growth part did not complete (tool trouble): %s" % str(e)[:500], None)
    except Exception as e:   # noqa
        import traceback
        ctx.drift(area, "growth part did not complete: %s" % traceback.format_exc()[-800:], None)


def write_lines(path, objs):
    os.makedirs(os.path.dirname(path), exist_ok=True)
    with open(path, "w") as f:
        for o in objs:
            f.write(json.dumps(o, separators=(",", ":")))
            f.write("\n")


_WORKDIRS = {}


def workdir(prop):
    """Scratch directory of this run of the check: .work/<prop>/run-<pid>. Private to the process (two runs of the
    same check may overlap: a regression chain next to an evaluation - shared file names there made TLC read a
    file another run had just deleted), removed when the process ends."""
    d = _WORKDIRS.get(prop)
    if d is None:
        d = os.path.join(WORK, prop, "run-%d" % os.getpid())
        _WORKDIRS[prop] = d
        import atexit, shutil
        atexit.register(lambda p=d: shutil.rmtree(p, ignore_errors=True))
    os.makedirs(d, exist_ok=True)
    return d
