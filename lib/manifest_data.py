NOTES = ("Model-based verification with explicit TLA+ specifications (spec/), TLC, and conformance harnesses (harness/). "
         "See DESIGN.md. KNOWN_FINDINGS.txt lists repaired and open defects.")

NOT_APPLICABLE = {}

CHECKS = {
 "C01": {
  "bins": ["conn", "cors"], "tokio_bins": ["conn", "cors"], "specs": ["conn", "cors", "tls"],
  "level": "model_checking",
  "technique": "TLA+ model of the per-connection loop (HttpConn) checked by TLC over all scripts x all segmentations incl. liveness; TLC-generated scripts and send sequences replayed over loopback on both runtimes; every recorded client log trace-validated by TLC",
  "text": "TLC explores the connection machine (first byte, buffered head/body reads with read-ahead, dispatch, write, next-or-close, timeout, panic) against the declarative Expected(script) for all scripts <=2 (thorough <=3) over the loop-relevant catalogue and the method x target x Connection x version product, every split/coalescing of the byte stream, with safety and liveness; each real connection (threaded and tokio App on loopback, segmentations chosen by TLC simulation plus byte-exact extremes) is logged at the client and accepted only if TLC finds a behaviour of the spec that explains the whole log; the server's own monitor events for the connection must equal MonExpected. The matched route's CORS headers: TLC explores every order of App/SubApp/Cors builder calls (spec/cors), and for every generated builder history and GET/POST/OPTIONS request the status and Access-Control-* headers of real Apps on both runtimes must equal the expectation computed from the call history (unmatched routes get none; handler-set headers are not overridden or duplicated).",
  "note": "Trusts: Expected(script) as the reading of the property (400/408 checked for status+close only); the harness reference HTTP response parser; loopback timing assumptions (3 s silence = hang). Open deviations CrlfAfterBody and ReadAheadLost are attributed only when Dev={d} explains the log exactly.",
  "ref": "DESIGN.md section 5 C01",
 },
 "C06": {
  "bins": ["staticfs"], "tokio_bins": ["staticfs"], "specs": ["static"],
  "level": "model_checking",
  "technique": "TLA+ model of percent-decoding, the ../: guard, Linux path lookup, route-prefix stripping and the static handlers; TLC enumerates every request path of the bound as a state and proves confinement, guard soundness, the positive half and the redirect/index rule on the handler model; TLC-printed expectations replayed on the real serve_dir, directory_handler and serve_as_file_path (threaded and tokio) against on-disk trees with canaries beside the root; random worlds and requests recorded from the code validated by TLC",
  "text": "TLC proves, for 3 worlds, that the transcribed handler model with Dev={} never answers with bytes from outside the root (Confinement, GuardSound), serves every clean file with its MIME type (Positive), redirects and indexes as stated (RedirectIndex) and stays within the admitted answers (ModelConforms), over the property's 18-spelling catalogue to depth 3 (thorough: depth 5, 1.9M paths, plus wider catalogues to depth 3/4), refuting seven to nine named deviations; every TLC-printed path is replayed on the real handlers under 3 route prefixes (status, Location, Content-Type, byte-exact body identity, canary scan), cache off and on for directory_handler; answers from random worlds (sibling directories named like the root, files beside it named like inside files, paths up to 8 segments) are validated by Trace_StaticFs.",
  "note": "Trusts: Expect*/Conforms as the reading of the text (strict 200/301/404 on clean paths; any 4xx without file bytes for dot-dot, NUL or malformed escapes; extension-less Content-Type absent or octet-stream); OsLookup as Linux resolution without symlinks; the 3 hand-written worlds plus the random ones. The server's fixed-file route (file_handler) is not a directory route and is not covered.",
  "ref": "DESIGN.md section 5 C06",
 },
 "C07": {
  "bins": ["httpresp", "url"], "specs": ["http"],
  "level": "model_checking",
  "technique": "TLA+ model of the response serialiser and parser (action by action, bytes delivered in segments) plus the client redirect machine, checked by TLC against denotational RenderResp/DenoteResp; TLC vectors and behaviours replayed on Vec<u8>::from(Response), Response::from_stream, SetCookie and Client over loopback; random large cases trace-validated by TLC",
  "text": "TLC runs the Ser_*/Par_* actions on every status code, header lists 0..3, bodies <=6 under every composition into chunks and hex spelling, arbitrary read segmentation with termination, and all redirect chains <=5 over {301,302,307} x {relative, absolute}, refuting CrlfAfterBody and 13 named bugs; the same spaces are replayed on the real code under split plans (all-at-once, bytewise, every split point, random) and byte mappings, incl. all 2^7 Set-Cookie attribute subsets, the StatusCode tables for 0..999 and Client::get(..).with_redirects(true) against scripted servers on 127.0.0.1:80; logs of random responses (0..40 headers, 64 KiB bodies, random chunkings) and random redirect scripts are accepted only if Trace_HttpResp / Trace_Client explain them.",
  "note": "Trusts: HttpRespSyntax.tla as the reading of RFC 7230/7231/6265; both the RFC 2616 and RFC 7231 phrases accepted for 413/414/416; header equality per case-insensitive name with values in order; the client part needs 127.0.0.1:80 (bind retried for 40 s, else reported as reduced coverage, never as a violation). Open deviation CrlfAfterBody (CRLF after a non-empty body, pinned by test_response) is attributed only on an exact match.",
  "ref": "DESIGN.md section 5 C07",
 },
 "C08": {
  "bins": ["pool"], "specs": ["pool"],
  "level": "model_checking",
  "technique": "TLA+ model of ThreadPool/RecoveryThread (one action per hook point) model-checked by TLC for safety and liveness under weak fairness; TLC behaviours (witness traces, edge-covering paths over the dumped state graph, simulations) forced through the real pool by a gating hook callback; hook logs of randomised real runs validated by TLC with a trace specification",
  "text": "TLC explores every interleaving of caller, N workers and recovery thread for N in 1..3, up to 4 tasks, every panic subset (incl. a respawned worker panicking again) and every lifecycle script start/execute*/[stop]/drop, with invariants (at most once, lock not held while running, no loss/dup, no premature exit, never poisoned) and liveness (each task eventually once, caller never blocks, all workers exit, panic isolated); 11 deviation configs and parallelism witnesses guard against vacuity. TLC behaviours are forced step by step through the real pool via gates at the hook points (every edge of the N=1/3-task and N=2/2-task graphs in thorough), a missing expected point after 1+4+15 s is a hang; randomised real runs (N up to 8, up to 200 tasks, panics, spins, sleeps, injected yields) and all forced runs are validated by Trace_ThreadPool.",
  "note": "Trusts: std mpsc FIFO/disconnect semantics and Mutex exclusion; task bodies terminate; the hook call sites as the projection (add-only, cfg humphrey_verif); /proc/self/task for thread liveness; DESIGN 5a (execute only between start and stop; the recovery thread is not a worker). Restart scripts (start..stop start) and execute from several threads are not modelled.",
  "ref": "DESIGN.md section 5 C08",
 },
 "C09": {
  "bins": ["proxy"], "specs": ["proxy"],
  "level": "model_checking",
  "technique": "TLA+ model of upstream x proxy x discrete clock (Proxy.tla) and of the load balancer under concurrent selectors (LoadBalancer.tla) checked by TLC incl. liveness; TLC-generated upstream behaviours replayed byte-exactly by a scripted loopback upstream against proxy_request and proxy_handler; byte-cut observations and balancer logs trace-validated by TLC",
  "text": "TLC explores the upstream (refuse, blackhole, silent, close, valid response in Content-Length/chunked/close-delimited framing cut after every segment then close or stall, garbage, malformed header/length/chunk, trickle) against the proxy steps and a clock, proving Inv_Faithful, Inv_Forwarded, Inv_NoPanic, Inv_Timely and Live_Responds with the timer as the only progress guarantee, for all registered non-1xx status codes x 3 framings (thorough), refuting 13 deviations; the balancer is explored for up to 4 targets x 4 threads x 3 calls. Every TLC behaviour is played against the real proxy functions, every seed response is additionally cut at every byte offset, and all observations plus the selection logs of 1..8 real threads are validated by Trace_Proxy / Trace_LoadBalancer.",
  "note": "Trusts: Acceptable/Forward in ProxyMsg.tla as the reading of the property; 'within the timeout' judged only as returned within timeout + 1.5 s with escalating waits, never as too fast; open deviations CloseDelimitedLost and UnmodelledStatusIs502 are attributed only when Dev={d} predicts the observation exactly; the random balancer's distribution is not decided (membership only).",
  "ref": "DESIGN.md section 5 C09",
 },
 "C10": {
  "bins": ["wsframe"], "specs": ["ws"],
  "level": "model_checking",
  "technique": "TLA+ model of the frame encoder and of the decoder (one action per read_exact under an arbitrary delivery schedule) checked by TLC against denotational Encode/Decode from RFC 6455 5.2; TLC-generated vectors for every header and length class replayed on the real codec under every split; random frames up to 1 MiB trace-validated by TLC",
  "text": "TLC checks DecoderCorrect (result = Decode(wire) under every delivery schedule), NoReadAhead, Prompt and termination for the decoder machine, equality of the encoder model with Encode, the RoundTrip and shortest-length-form lemmas and Need(h) on all 65 536 two-byte headers, refuting four mutations; 6336 abstract frames (FIN x RSV x 6 opcodes x mask off/5 keys x 11 boundary lengths) and all 65 536 headers (bare, complete, truncated remainders) are replayed through humphrey_ws::verif::{encode, decode}: encode byte for byte, decode under every split point (<300 bytes) or seeded random splits, truncations must give a read error, reserved opcodes rejected, Message::to_frame as the unmasked single-frame case; random frames up to 1 MiB are validated by Trace_WsFrame.",
  "note": "Trusts: WsFrame.tla as the reading of RFC 6455 5.2 with the DESIGN 5a leniencies; lengths >= 2^31 are outside TLC integers (the model says they can only end in a read error); the harness expands [len, seed] payloads and unmasks via the XOR table TLC prints; the cfg-guarded wrapper humphrey_ws::verif forwards to the private codec.",
  "ref": "DESIGN.md section 5 C10",
 },
 "C11": {
  "bins": ["wsendpoint"], "specs": ["wsendpoint"],
  "level": "model_checking",
  "technique": "TLA+ model of one WebSocket connection (handshake, frames in pieces, blocking/non-blocking receive, ping/pong, close, drop) checked exhaustively by TLC; every finished behaviour replayed on loopback against a real App + websocket_handler; event logs of those and of random scripts trace-validated by TLC; accept values recomputed by TLC (Sha1/Base64 specs)",
  "text": "TLC explores all conforming client scripts up to 3 frames (thorough 4) x delivery split classes x receive modes and proves the handshake, well-formed-output, exact-delivery, ping/pong, close and nothing-yet properties plus liveness, refuting 9 deviations/mutants and 2 witnesses; every behaviour is replayed against the real endpoint by a reference RFC 6455 client that parses the server's bytes as frames, and logged connections (incl. random scripts up to 12 frames, 70 KiB payloads) are accepted only if TLC finds a matching behaviour of the spec.",
  "note": "Trusts: the harness frame parser and loopback instrumentation (FIONREAD lower bound on arrival, TIOCOUTQ = 0 means delivered); Close reply payload not compared; client scripts conform to the RFC; abrupt disconnect = half-close; accept values for random keys beyond the TLC-checked sample come from the harness SHA-1/Base64 cross-checked against TLC.",
  "ref": "DESIGN.md section 5 C11",
 },
 "C12": {
  "bins": ["wsasync"], "specs": ["wsasync"],
  "level": "model_checking",
  "technique": "TLA+ model of the async WebSocket event loop (real phase order) + FIFO handler pool + clients + external sender checked by TLC incl. liveness; TLC witness and TLC-sampled lock-step behaviours forced on the real AsyncWebsocketApp through Loop_Iter/Task_Start gates with per-iteration comparison; hook/handler/client logs of randomised runs trace-validated by TLC",
  "text": "TLC proves exactly-once and ordering (ConnectOnce, ConnectBeforeMessages, MessageOncePerClientOrder, DisconnectOnce, NothingAfterDisconnect) at dispatch level for every pool size and at invocation level for the repaired pool and for one worker, unicast/broadcast membership, QuiescentComplete and ShutdownEndsRun for 2 clients x <=2 messages x pools 1-2 x {unicast, broadcast, external sender, heartbeat}; refutes InvocationInversion and 5 plausible bugs; 6 reachability witnesses. TLC-simulated behaviours are replayed in lock-step on the real app (per loop iteration: dispatches, removals, admissions, flushes and receivers), and every free-running real run (1-8 reference RFC 6455 clients, pools 1-8, poll 0-10 ms, heartbeat, both link modes, early shutdown) is accepted only if the spec's actions explain every record.",
  "note": "Trusts: the port->client and payload-tag projection in the harness; loop phase order is compared only in lock-step replays; Dev={} is the minimal repair (serialised handler starts). Open deviation InvocationInversion (pools >= 2 start handlers out of dispatch order) is attributed only when Dev={} rejects and Dev={InvocationInversion} explains the log; dispatch-level claims stay hard failures. Heartbeat timeouts of open clients are accepted only with a harness-measured stall excuse; a reset inside a frame ends a client's log silently, only an orderly FIN inside a frame or a payload whose hash is unknown is logged as a truncated or garbled delivery. No latency claims; hangs are detected by 8-15 s waits.",
  "ref": "DESIGN.md section 5 C12",
 },
 "C13": {
  "bins": ["json"], "specs": ["json"],
  "level": "model_checking",
  "technique": "TLC enumerates the bounded input space as states and, on every string, checks the RFC 8259 definition (Parse/IsJson/Denote/Depth) against a transcription of parser.rs, a state machine of it (explicit call stack, termination) and a model of serialize.rs; the accepted vectors are replayed into Value::parse / parse_max_depth; recorded executions (documents, mutants, serialiser outputs) are validated by TLC with a trace spec",
  "text": "TLC visits every string of length <=5 (thorough <=6) over the 18-token JSON alphabet, every number-like string <=7/8, member-level object strings and escape-token strings, checks on each that the parser model accepts iff IsJson and depth <= limit and denotes the same value (with the pruning lemma Inv_DeadStaysDead checked on complete smaller spaces), that the parser state machine agrees, keeps its depth counter and cursor invariants and terminates, and refutes the three repaired deviations plus nine plausible bugs; the harness enumerates the same spaces itself and requires Value::parse and parse_max_depth(0..3) to accept exactly the set TLC printed with the printed depth and value (member order included); documents with every escape form, all BMP \\uXXXX escapes, surrogate edges, whitespace placements, nesting to 300, extreme numbers and all single-character mutants, and the outputs of serialize / serialize_pretty(0..8) on random Values, are validated record by record by Trace_Json8259.",
  "note": "Trusts: Part 1 of Json8259.tla as the reading of RFC 8259; Rust's f64::from_str for the value of a validated literal; the pruning lemma. Either outcome is allowed for unpaired surrogates, literals beyond the f64 range and a leading BOM; values are not compared for objects with duplicate names; the sign of zero is not compared. The depth limit (256) is probed from the implementation.",
  "ref": "DESIGN.md section 5 C13",
 },
 "C14": {
  "bins": [], "specs": ["jsonmap"],
  "level": "model_checking",
  "technique": "TLA+ model of the json!/json_array_internal!/json_object_internal! munchers and of the derive/json_map! expansions, checked by TLC against the documented shape and literal denotation; TLC-enumerated declarations x values and literals turned into one Rust crate compiled against the working tree; random programs and literals trace-validated by TLC",
  "text": "TLC checks ShapeOk, RoundTrip, DocReadsBack, Compiles and MacroOk over all declarations with <=2 fields x value combinations and all literals <=6 nodes (thorough), refuting ten deviation/bug configs; it enumerates programs (19 base types x wrapper stacks x 4 mapping routes, renames from a 10-string catalogue incl. quotes, backslashes, non-ASCII) with value vectors and json! literals and prints the documented JSON with the expected observation; the driver renders them as one Rust crate under gen/, compiles it against /repo's humphrey_json and runs it (to_json dump, value and text round trip, documented text read back, json! vs Value::parse); seeded random programs (1..6 mutually referring declarations, <=8 fields) and literals to depth 6 are recorded and validated by Trace_JsonMap.",
  "note": "Trusts: Shape/DenoteLit as the reading of 'documented shape' and 'equivalent JSON text'; the rendering of the spec's records as Rust source in checks/c14.py and gen/src/support.rs; Rust's f64 Display/from_str; WellFormed (no two members of a type under one name) is a precondition. Open deviation IntBeyond2p53 (integers beyond 2^53 lose precision: numbers are f64 by design) is attributed only when Dev={IntBeyond2p53} predicts the observation exactly. Option<Option<T>>, NaN, generics are outside the generated language.",
  "ref": "DESIGN.md section 5 C14",
 },
 "C15": {
  "bins": ["config", "serverapp"], "specs": ["config", "serverapp", "plugins"],
  "level": "model_checking",
  "technique": "TLA+ abstract syntax + Meaning + fault classes for Humphrey configuration files and a line-by-line model of parse_conf/from_tree checked by TLC (Conforms, NoCrash, liveness, lemmas, refuted deviations/bugs); TLC-generated configurations and single-fault mutants replayed on the real loader under seeded layouts; random full-width configurations recorded from the code validated by TLC",
  "text": "TLC checks that the line-by-line code model (parse_conf, parse_section, include, parse_size, from_tree, parse_host, parse_route: 18 actions) conforms to Meaning(ast) and never crashes over presence subsets of 14 scalar keys, per-key values incl. sizes {0,1,1023,128} x {none,K,M,G} and the 2^63 boundary, 0..3 hosts x 0..3 routes of 9 kinds x arity 1..3, include splittings and 16 fault classes at every token, with lemmas (permutation of keys/sections, include splitting, unknown keys ignored, defaults independent of context, every injected fault located); each TLC case is rendered under 5 (thorough 12) seeded layouts (indentation, comments, blank lines, key order, include files, non-ASCII mapping) and loaded by the real parse_conf + Config::from_tree: fields compared one by one, rejections by class, file and line; 1,000 / 12,000 random configurations (0..4 hosts, 0..8 routes, injected faults) are validated by Trace_Config. Beyond the loader (spec/serverapp): TLC checks that the app built by main/init_app_routes answers as Serve(cfg, request) says (host and route order, redirect exactness, WebSocket proxied iff configured, log-level masks) and the proxy_websocket byte pump as a state machine (order, no loss, close propagation, liveness), with 17 must-violate configs; generated and random configurations are rendered to real files, served by the real humphrey binary with scripted upstreams and WebSocket targets, and every session is validated by Trace_ServerApp.",
  "note": "Trusts: Meaning as the reading of the property (DESIGN 5a) with from_tree's defaults; the generators' stated lexical choices (upper-case units, no # inside strings, space separators); builds without tls/plugins; for a missing brace any line from the section header to end of file is accepted; validation vs oversize errors: either class. exhaustive=false: the family is a covering sample.",
  "ref": "DESIGN.md section 5 C15",
 },
 "C16": {
  "bins": ["cache"], "specs": ["cache"],
  "level": "model_checking",
  "technique": "TLA+ model of Cache (set/get/tick, FIFO eviction, staleness) and of the static handlers checked by TLC; TLC's complete transition graphs replayed edge by edge and all 25^5 (thorough 25^6) operation sequences run in lock-step on the real Cache; multi-threaded RwLock<Cache> histories and file_handler/directory_handler runs trace-validated by TLC, plus a policy-free TLA+ statement of the property as judge",
  "text": "TLC proves size bound, coherence (a hit is exactly the last set of that (route,host), never staler than the limit), key uniqueness and immediate retrievability on the complete state graph for up to 4 keys x 3 sizes x 2 contents, limits 0/2/4 units, time limits 0/1/60, and bounded staleness for the handler model (StaticCache.tla), refuting 7 hypothetical faults and 4 reachability witnesses; every edge of the printed graphs and every operation sequence up to the bound is executed on humphrey_server::cache::Cache and compared with the graph (get for every key stored so far after every step); random 2000-op histories from 1..8 threads through RwLock<Cache> (events logged under the guard) and handler-level runs with files rewritten between requests are accepted only if TLC finds a behaviour explaining every record.",
  "note": "Trusts: the payload projection (content id <-> fill byte + MIME type; (len, FNV, MIME) in logs); the process-local clock_gettime override in the harness bin (calibrated against the real Cache every run and cross-checked on the real clock; no hook in /repo); RwLock order = sequence numbers taken under the guard; handler runs rewrite files only between phases. When Cache.tla cannot explain an observation, the history is judged against the property alone (Trace_CacheProp): rejected => VIOLATION, accepted => MODEL-DRIFT note. A set larger than the limit (panic) and rewrites during a request are recorded as observations outside the property.",
  "ref": "DESIGN.md section 5 C16",
 },
 "C17": {
  "bins": ["auth"], "specs": ["auth"],
  "level": "model_checking",
  "technique": "TLA+ model of AuthProvider (code model vs. reference model of grants/passwords) checked by TLC; TLC's complete state graph replayed edge by edge on a real AuthProvider<Vec<User>> and the with_auth_route closure; random operation histories trace-validated by TLC",
  "text": "TLC explores every reachable state of Auth.tla (3 uids / up to 3 live, 2 passwords, 3 tokens, clock 0..4, lifetimes 0/1/2/3) with coherence, one-live-session, uniqueness invariants and the per-call action property ResultsOK, plus simulation with 5 live users; seven named deviations are each refuted. Every edge of the dumped graph is executed on the real provider (with/without pepper, all concretisations of unknown uid/token/cookie), and random histories (<=60 ops, 1..5 users) recorded from the real code are accepted only if Auth.tla's actions reproduce every result and database projection.",
  "note": "Trusts: the reference model in Auth.tla as the reading of the property; the uid/token-to-integer abstraction and clock-by-expiry-rewrite (unit 10^6 s) in the harness; Argon2; Argon2-bound non-discovering edges are sampled; token randomness quality not decided (format + distinctness only).",
  "ref": "DESIGN.md section 5 C17",
 },
 "C18": {
  "bins": ["codec"], "specs": ["codec"],
  "level": "exploration",
  "technique": "RFC reference definitions (SHA-1, Base64, percent-encoding, Gregorian calendar / IMF-fixdate) written in TLA+ and executed by TLC; streaming and decoder state-machine models checked against them; TLC-generated vectors, tables and the day-by-day calendar replayed on the real functions; random executions trace-validated by TLC",
  "text": "TLC proves the streaming SHA-1 machine equal to the RFC 3174 function (RFC vectors as ASSUMEs), the Base64 and percent decoder models correct against the RFC 4648 / RFC 3986 denotations (all four former defects refuted), the Base64 table lemmas on the full 2^24 / 68^4 spaces (thorough), and walks the calendar day by day from 1970 to 9999 in lock-step with a model of date.rs's conversion; the harness runs the real code on the whole bounded quantifier: SHA-1 for every length 0..200 (thorough 0..1100) plus long messages, all 2^24 three-byte groups, all 68^4 four-symbol texts, every byte pair and all %xy, every month (thorough: every day) at 00:00:00/23:59:59/random second and every second of selected days.",
  "note": "Exploration with a TLC-executed reference, not a proof of the Rust code (DESIGN 8). Trusts the four .tla transcriptions of the RFCs (cross-checked once against CPython), the DESIGN 5a leniencies (unpadded final group and non-zero trailing bits may be accepted or rejected), the mirrored byte generator (self-checked against bytes TLC prints) and ts = day*86400 + second.",
  "ref": "DESIGN.md section 5 C18",
 },
 "C19": {
  "bins": ["blacklist"], "specs": ["server"],
  "level": "model_checking",
  "technique": "TLA+ model of the blacklist decision points (accept-time condition, per-handler checks, cache) checked by TLC; TLC-generated decision vectors replayed against the real humphrey server binary with clients bound to chosen source addresses; recorded sessions trace-validated by TLC",
  "text": "TLC explores the decision-point state machine (connection condition, file/directory/proxy/redirect handler checks, cache, two concurrent connections) against Decide(mode, list, peer, xff, route) with invariants, action and liveness properties, sensitivity configs for 10 deviations and 4 reachability witnesses; every TLC-enumerated row (mode x list x peer x X-Forwarded-For shape x route type x cache state) is sent to the real server binary built from the working tree on 127.0.0.1, ::1 and dual-stack ::, and random keep-alive sessions are validated by Trace_Blacklist.",
  "note": "Trusts: Decide as the reading of the property (only GET to routed targets; a listed intermediate X-Forwarded-For entry may be 403 or served); Linux loopback source-address binding; a server hang is a tool error, not a violation.",
  "ref": "DESIGN.md section 5 C19",
 },
 "C02": {
  "bins": ["httpreq"], "tokio_bins": ["httpreq"], "specs": ["http"],
  "level": "model_checking",
  "technique": "TLA+ denotational semantics of HTTP/1.x requests plus a TLC-explored model of Request::from_stream under every read segmentation and of the serialiser; TLC-enumerated requests replayed on the sync and tokio parsers under all read plans with round trip; large random requests recorded from the code validated by TLC",
  "text": "TLC checks Denote(Render(r))=Norm(r) and the canonical fixed point on the generated request space, shows that the parser model returns the denotation and consumes exactly the request under all segmentations and BufReader capacities (with termination), and that serialise+parse preserves request equality for any stable field order; each generated request is parsed by both real parsers under up to 184 read plans (all-at-once, bytewise, every split point, fixed and random, Poll::Pending on tokio), compared field by field and round-tripped; recorded random requests (0..40 fields, 64 KiB bodies, cookies, X-Forwarded-For with garbage) are re-derived by TLC (Trace_HttpReq).",
  "note": "Trusts: the reading in HttpReqSyntax.tla (DESIGN 5a; None body = empty body; addresses compared as canonical text); the harness projection observe/diff; fnv64 for large payloads. Nine deviation configs must each be refuted. A request with zero headers serialises with one extra CRLF: the re-parsed request is equal (what the property states); counted in the evidence, not a violation.",
  "ref": "DESIGN.md section 5 C02",
 },
 "C03": {
  "bins": ["parsefuzz"], "tokio_bins": ["parsefuzz"], "specs": ["mutants"],
  "level": "exploration",
  "technique": "TLA+ definition of the parser input families enumerated by TLC and replayed into isolated worker processes (RLIMIT_AS, counting allocator, catch_unwind, watchdog, 2 MiB stack) for six parser entry points plus the tokio request parser; every recorded call judged by TLC with ParseGuard (Trace_Mutants); supervisor/worker attribution protocol model-checked (ParseSup)",
  "text": "Bounded-exhaustive short strings over per-parser protocol alphabets, every prefix of every seed message, single-site structure-aware mutants (length fields at boundary/huge values, delimiters removed or doubled, multi-byte and invalid UTF-8 at every position, nesting 1..400 and beyond) are defined in Mutants.tla, enumerated by TLC and run, all-at-once and byte-by-byte, through the HTTP request (sync+tokio) and response parsers, the WebSocket frame and message decoders, the JSON parser and the configuration parser in a supervised worker; seeded random inputs are added; every call must return ok/err with peak allocation <= 1024*(len+64 KiB).",
  "note": "The spec is thin by design (DESIGN 8): it defines the input families and the guard, not the parsers' memory behaviour. Trusts the worker's observation (allocator counts, RLIMIT_AS 1 GiB, watchdog) and the supervisor's attribution, whose protocol is model-checked. Self-tests with a misbehaving stand-in parser and corrupted logs run on every check.",
  "ref": "DESIGN.md section 5 C03",
 },
 "C04": {
  "bins": ["routing"], "tokio_bins": ["routing"], "specs": ["routing"],
  "level": "model_checking",
  "technique": "TLA+ model of the dispatcher (one action per find step of get_handler / call_websocket_handler) checked by TLC against the denotational Route/WsRoute; TLC-generated (app, request, expected handler) vectors replayed on real Apps over loopback on both runtimes; random full-width apps trace-validated by TLC",
  "text": "TLC proves AlgoCorrect (the stepwise dispatcher ends with the property's Route/WsRoute result), termination and the independence facts (removing a non-chosen route or another host, appending routes/hosts, HTTP vs WebSocket route kinds) over apps with <=2 hosts x <=3 routes from a pattern catalogue x Host values x paths x query forms, refuting nine deviations (last route, last host, next host on miss, no default after host match, match with query, host equality, port ignored, WebSocket using HTTP routes, pre-repair matcher); every vector is sent as real requests (GET keep-alive, POST, HTTP/1.0, OPTIONS, WebSocket upgrade) to a real App built through the public registration API, and random apps of the property's full width (0..4 hosts x 0..6 routes) are validated by Trace_Routing.",
  "note": "Trusts: Route/WsRoute in Routing.tla as the reading of the property (host matched but no route falls through to the default app; Host with port matched literally; a WebSocket miss is no bytes or any non-101 answer); Match copied from spec/glob (the check refuses to run if the copies differ).",
  "ref": "DESIGN.md section 5 C04",
 },
 "C05": {
  "bins": ["glob"], "specs": ["glob"],
  "level": "model_checking",
  "technique": "TLA+ model of the matcher loop checked by TLC against the denotational Match; TLC-generated (pattern,text) vectors replayed on wildcard_match; random pairs trace-validated by TLC",
  "text": "TLC explores the algorithm model (one action per loop iteration) for every pattern<=6 x text<=8 over {*,a,b}/{a,b} and proves termination with the denotational answer; the same exhaustive pair space is replayed on the real matcher under four character mappings and two entry points, and random long pairs recorded from the real code are validated by TLC.",
  "note": "Trusts: Match(p,t) in spec/glob/Glob.tla as the reading of the property; the symbol mappings as representative of 'any other character'; TLC.",
  "ref": "DESIGN.md section 5 C05",
 },
 "C20": {
  "bins": ["shutdown"], "tokio_bins": ["shutdown"], "specs": ["shutdown"],
  "level": "model_checking",
  "technique": "TLA+ model of accept loop, run thread, abstract pool and kernel backlog for both runtimes, checked by TLC for liveness under acceptor/run-thread fairness only plus the safety invariants; TLC-simulated behaviours replayed through hook gates on the real App::run; scripted gated races and random traffic-state scenarios trace-validated by TLC",
  "text": "TLC proves that a signal always leads to run returning with the listener closed (Live_RunReturns with no fairness on handlers), that nothing accepted before the signal is refused service and no response to a pre-signal request is truncated, for <=3 connections x traffic states x pools 1..2 x both runtimes, with 9 sensitivity deviations and 4 race witnesses; TLC-simulated behaviours are forced step by step through gates at the accept-loop hook points of the real App::run (threaded and tokio), scripted races (client before the wake-up connection, wake-up during Dispatch, all workers busy) and seeded random scenarios (0..16 connections in 8 traffic states, pools 1..8, binds on 127.0.0.1 / 0.0.0.0 / [::]) are run with signal->return escalation 1/4/15 s, /proc/net/tcp listener check, re-bind, and reading every in-flight response to completion; every event log is validated by Trace_Shutdown.",
  "note": "Trusts: the abstract pool (one Shutdown message plus detach); the process stays alive after run returns; 'bounded time' read as the 1 s / 4 s / 15 s escalation; a connection whose flag read comes after the signal may be dropped without response (DESIGN 5a); tokio's select! after cancel cannot be forced either way (such replays are marked not forceable, never a hang). Hooks are add-only at the accept loop.",
  "ref": "DESIGN.md section 5 C20",
 },
}

# refreshed technique/text/note strings (written by each check's builder after the strengthening rounds) override the
# round-1 strings above; maintained with lib/pull_text.py
import json as _json, os as _os
_p = _os.path.join(_os.path.dirname(_os.path.abspath(__file__)), "manifest_text.json")
if _os.path.exists(_p):
    for _k, _v in _json.load(open(_p)).items():
        if _k in CHECKS:
            CHECKS[_k].update(_v)

# after the false-alarm audit (DESIGN 4.5, 9.1): what gates is what the statement demands
for _k, _c in CHECKS.items():
    if _k != "C05" and "SPEC-DRIFT" not in _c["note"]:
        _c["note"] = _c["note"].rstrip() + (" Two-level judging (DESIGN 4.5): an observation the code model cannot explain is a violation only if the "
                                            "property judge / the named leniencies also reject it; otherwise it is printed as SPEC-DRIFT, kept in the "
                                            "evidence and does not gate (per-check list in DESIGN 9.1).")
