NOTES = ("Model-based verification with explicit TLA+ specifications (spec/), TLC, and conformance harnesses (harness/). "
         "See DESIGN.md. KNOWN_FINDINGS.txt lists repaired and open defects.")

NOT_APPLICABLE = {}

CHECKS = {
 "C01": {
  "bins": ["conn"], "tokio_bins": ["conn"], "specs": ["conn"],
  "level": "model_checking",
  "technique": "TLA+ model of the per-connection loop (HttpConn) checked by TLC over all scripts x all segmentations incl. liveness; TLC-generated scripts and send sequences replayed over loopback on both runtimes; every recorded client log trace-validated by TLC",
  "text": "TLC explores the connection machine (first byte, buffered head/body reads with read-ahead, dispatch, write, next-or-close, timeout, panic) against the declarative Expected(script) for all scripts <=2 (thorough <=3) over the loop-relevant catalogue and the method x target x Connection x version product, every split/coalescing of the byte stream, with safety and liveness; each real connection (threaded and tokio App on loopback, segmentations chosen by TLC simulation plus byte-exact extremes) is logged at the client and accepted only if TLC finds a behaviour of the spec that explains the whole log.",
  "note": "Trusts: Expected(script) as the reading of the property (400/408 checked for status+close only); the harness reference HTTP response parser; loopback timing assumptions (3 s silence = hang). Open deviations CrlfAfterBody and ReadAheadLost are attributed only when Dev={d} explains the log exactly.",
  "ref": "DESIGN.md section 5 C01",
 },
 "C11": {
  "bins": ["wsendpoint"], "specs": ["wsendpoint"],
  "level": "model_checking",
  "technique": "TLA+ model of one WebSocket connection (handshake, frames in pieces, blocking/non-blocking receive, ping/pong, close, drop) checked exhaustively by TLC; every finished behaviour replayed on loopback against a real App + websocket_handler; event logs of those and of random scripts trace-validated by TLC; accept values recomputed by TLC (Sha1/Base64 specs)",
  "text": "TLC explores all conforming client scripts up to 3 frames (thorough 4) x delivery split classes x receive modes and proves the handshake, well-formed-output, exact-delivery, ping/pong, close and nothing-yet properties plus liveness, refuting 9 deviations/mutants and 2 witnesses; every behaviour is replayed against the real endpoint by a reference RFC 6455 client that parses the server's bytes as frames, and logged connections (incl. random scripts up to 12 frames, 70 KiB payloads) are accepted only if TLC finds a matching behaviour of the spec.",
  "note": "Trusts: the harness frame parser and loopback instrumentation (FIONREAD lower bound on arrival, TIOCOUTQ = 0 means delivered); Close reply payload not compared; client scripts conform to the RFC; abrupt disconnect = half-close; accept values for random keys beyond the TLC-checked sample come from the harness SHA-1/Base64 cross-checked against TLC.",
  "ref": "DESIGN.md section 5 C11",
 },
 "C17": {
  "bins": ["auth"], "specs": ["auth"],
  "level": "model_checking",
  "technique": "TLA+ model of AuthProvider (code model vs. reference model of grants/passwords) checked by TLC; TLC's complete state graph replayed edge by edge on a real AuthProvider<Vec<User>> and the with_auth_route closure; random operation histories trace-validated by TLC",
  "text": "TLC explores every reachable state of Auth.tla (3 uids / up to 3 live, 2 passwords, 3 tokens, clock 0..4, lifetimes 0/1/2/3) with coherence, one-live-session, uniqueness invariants and the per-call action property ResultsOK, plus simulation with 5 live users; seven named deviations are each refuted. Every edge of the dumped graph is executed on the real provider (with/without pepper, all concretisations of unknown uid/token/cookie), and random histories (<=60 ops, 1..5 users) recorded from the real code are accepted only if Auth.tla's actions reproduce every result and database projection.",
  "note": "Trusts: the reference model in Auth.tla as the reading of the property; the uid/token-to-integer abstraction and clock-by-expiry-rewrite (unit 10^6 s) in the harness; Argon2; Argon2-bound non-discovering edges are sampled; token randomness quality not decided (format + distinctness only).",
  "ref": "DESIGN.md section 5 C17",
 },
 "C19": {
  "bins": ["blacklist"], "specs": ["server"],
  "level": "model_checking",
  "technique": "TLA+ model of the blacklist decision points (accept-time condition, per-handler checks, cache) checked by TLC; TLC-generated decision vectors replayed against the real humphrey server binary with clients bound to chosen source addresses; recorded sessions trace-validated by TLC",
  "text": "TLC explores the decision-point state machine (connection condition, file/directory/proxy/redirect handler checks, cache, two concurrent connections) against Decide(mode, list, peer, xff, route) with invariants, action and liveness properties, sensitivity configs for 10 deviations and 4 reachability witnesses; every TLC-enumerated row (mode x list x peer x X-Forwarded-For shape x route type x cache state) is sent to the real server binary built from the working tree on 127.0.0.1, ::1 and dual-stack ::, and random keep-alive sessions are validated by Trace_Blacklist.",
  "note": "Trusts: Decide as the reading of the property (only GET to routed targets; a listed intermediate X-Forwarded-For entry may be 403 or served); Linux loopback source-address binding; a server hang is a tool error, not a violation.",
  "ref": "DESIGN.md section 5 C19",
 },
 "C05": {
  "bins": ["glob"], "specs": ["glob"],
  "level": "model_checking",
  "technique": "TLA+ model of the matcher loop checked by TLC against the denotational Match; TLC-generated (pattern,text) vectors replayed on wildcard_match; random pairs trace-validated by TLC",
  "text": "TLC explores the algorithm model (one action per loop iteration) for every pattern<=6 x text<=8 over {*,a,b}/{a,b} and proves termination with the denotational answer; the same exhaustive pair space is replayed on the real matcher under four character mappings and two entry points, and random long pairs recorded from the real code are validated by TLC.",
  "note": "Trusts: Match(p,t) in spec/glob/Glob.tla as the reading of the property; the symbol mappings as representative of 'any other character'; TLC.",
  "ref": "DESIGN.md section 5 C05",
 },
}
