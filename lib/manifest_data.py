NOTES = ("Model-based verification with explicit TLA+ specifications (spec/), TLC, and conformance harnesses (harness/). "
         "See DESIGN.md. KNOWN_FINDINGS.txt lists repaired and open defects.")

NOT_APPLICABLE = {}

CHECKS = {
 "C05": {
  "bins": ["glob"], "specs": ["glob"],
  "level": "model_checking",
  "technique": "TLA+ model of the matcher loop checked by TLC against the denotational Match; TLC-generated (pattern,text) vectors replayed on wildcard_match; random pairs trace-validated by TLC",
  "text": "TLC explores the algorithm model (one action per loop iteration) for every pattern<=6 x text<=8 over {*,a,b}/{a,b} and proves termination with the denotational answer; the same exhaustive pair space is replayed on the real matcher under four character mappings and two entry points, and random long pairs recorded from the real code are validated by TLC.",
  "note": "Trusts: Match(p,t) in spec/glob/Glob.tla as the reading of the property; the symbol mappings as representative of 'any other character'; TLC.",
  "ref": "DESIGN.md section 5 C05",
 },
}
