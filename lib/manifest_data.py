NOTES = ("Model-based verification with explicit TLA+ specifications (spec/), TLC, and conformance harnesses (harness/). "
         "See DESIGN.md. KNOWN_FINDINGS.txt lists repaired and open defects.")

NOT_APPLICABLE = {}

CHECKS = {
 "C01": {
  "bins": ["conn"], "tokio_bins": ["conn"], "specs": ["conn"],
  "level": "model_checking",
  "technique": "TLA+ model of the per-connection loop (HttpConn) checked by TLC over all scripts x all segmentations incl. liveness; TLC-generated scripts and send sequences replayed over loopback on both runtimes; every recorded client log trace-validated by TLC",
  "text": "TLC explores the connection machine (first byte, buffered head/body reads with read-ahead, dispatch, write, next-or-close, timeout, panic) against the declarative Expected(script) for all scripts <=2 (thorough <=3) over the loop-relevant catalogue and the method x target x Connection x version product, every split/coalescing of the byte stream, with safety and liveness; each real connection (threaded and tokio App on loopback, segmentations chosen by TLC simulation plus byte-exact extremes) is logged at the client and accepted only if TLC finds a behaviour of the spec that explains the whole log.",
  "note": "Trusts: Expected(script) as the reading of the property (400/408 checked for status+close only); the harness reference HTTP response parser; loopback timing assumptions (3 s silence = hang). Open deviations CrlfAfterBody and ReadAheadLost are attributed only when Dev={d} explains the log exactly.",
  "ref": "DESIGN.md section 5 C01",
 },
 "C08": {
  "bins": ["pool"], "specs": ["pool"],
  "level": "model_checking",
  "technique": "TLA+ model of ThreadPool/RecoveryThread (one action per hook point) model-checked by TLC for safety and liveness under weak fairness; TLC behaviours (witness traces, edge-covering paths over the dumped state graph, simulations) forced through the real pool by a gating hook callback; hook logs of randomised real runs validated by TLC with a trace specification",
  "text": "TLC explores every interleaving of caller, N workers and recovery thread for N in 1..3, up to 4 tasks, every panic subset (incl. a respawned worker panicking again) and every lifecycle script start/execute*/[stop]/drop, with invariants (at most once, lock not held while running, no loss/dup, no premature exit, never poisoned) and liveness (each task eventually once, caller never blocks, all workers exit, panic isolated); 11 deviation configs and parallelism witnesses guard against vacuity. TLC behaviours are forced step by step through the real pool via gates at the hook points (every edge of the N=1/3-task and N=2/2-task graphs in thorough), a missing expected point after 1+4+15 s is a hang; randomised real runs (N up to 8, up to 200 tasks, panics, spins, sleeps, injected yields) and all forced runs are validated by Trace_ThreadPool.",
  "note": "Trusts: std mpsc FIFO/disconnect semantics and Mutex exclusion; task bodies terminate; the hook call sites as the projection (add-only, cfg humphrey_verif); /proc/self/task for thread liveness; DESIGN 5a (execute only between start and stop; the recovery thread is not a worker). Restart scripts (start..stop start) and execute from several threads are not modelled.",
  "ref": "DESIGN.md section 5 C08",
 },
 "C09": {
  "bins": ["proxy"], "specs": ["proxy"],
  "level": "model_checking",
  "technique": "TLA+ model of upstream x proxy x discrete clock (Proxy.tla) and of the load balancer under concurrent selectors (LoadBalancer.tla) checked by TLC incl. liveness; TLC-generated upstream behaviours replayed byte-exactly by a scripted loopback upstream against proxy_request and proxy_handler; byte-cut observations and balancer logs trace-validated by TLC",
  "text": "TLC explores the upstream (refuse, blackhole, silent, close, valid response in Content-Length/chunked/close-delimited framing cut after every segment then close or stall, garbage, malformed header/length/chunk, trickle) against the proxy steps and a clock, proving Inv_Faithful, Inv_Forwarded, Inv_NoPanic, Inv_Timely and Live_Responds with the timer as the only progress guarantee, for all registered non-1xx status codes x 3 framings (thorough), refuting 13 deviations; the balancer is explored for up to 4 targets x 4 threads x 3 calls. Every TLC behaviour is played against the real proxy functions, every seed response is additionally cut at every byte offset, and all observations plus the selection logs of 1..8 real threads are validated by Trace_Proxy / Trace_LoadBalancer.",
  "note": "Trusts: Acceptable/Forward in ProxyMsg.tla as the reading of the property; 'within the timeout' judged only as returned within timeout + 1.5 s with escalating waits, never as too fast; open deviations CloseDelimitedLost and UnmodelledStatusIs502 are attributed only when Dev={d} predicts the observation exactly; the random balancer's distribution is not decided (membership only).",
  "ref": "DESIGN.md section 5 C09",
 },
 "C11": {
  "bins": ["wsendpoint"], "specs": ["wsendpoint"],
  "level": "model_checking",
  "technique": "TLA+ model of one WebSocket connection (handshake, frames in pieces, blocking/non-blocking receive, ping/pong, close, drop) checked exhaustively by TLC; every finished behaviour replayed on loopback against a real App + websocket_handler; event logs of those and of random scripts trace-validated by TLC; accept values recomputed by TLC (Sha1/Base64 specs)",
  "text": "TLC explores all conforming client scripts up to 3 frames (thorough 4) x delivery split classes x receive modes and proves the handshake, well-formed-output, exact-delivery, ping/pong, close and nothing-yet properties plus liveness, refuting 9 deviations/mutants and 2 witnesses; every behaviour is replayed against the real endpoint by a reference RFC 6455 client that parses the server's bytes as frames, and logged connections (incl. random scripts up to 12 frames, 70 KiB payloads) are accepted only if TLC finds a matching behaviour of the spec.",
  "note": "Trusts: the harness frame parser and loopback instrumentation (FIONREAD lower bound on arrival, TIOCOUTQ = 0 means delivered); Close reply payload not compared; client scripts conform to the RFC; abrupt disconnect = half-close; accept values for random keys beyond the TLC-checked sample come from the harness SHA-1/Base64 cross-checked against TLC.",
  "ref": "DESIGN.md section 5 C11",
 },
 "C17": {
  "bins": ["auth"], "specs": ["auth"],
  "level": "model_checking",
  "technique": "TLA+ model of AuthProvider (code model vs. reference model of grants/passwords) checked by TLC; TLC's complete state graph replayed edge by edge on a real AuthProvider<Vec<User>> and the with_auth_route closure; random operation histories trace-validated by TLC",
  "text": "TLC explores every reachable state of Auth.tla (3 uids / up to 3 live, 2 passwords, 3 tokens, clock 0..4, lifetimes 0/1/2/3) with coherence, one-live-session, uniqueness invariants and the per-call action property ResultsOK, plus simulation with 5 live users; seven named deviations are each refuted. Every edge of the dumped graph is executed on the real provider (with/without pepper, all concretisations of unknown uid/token/cookie), and random histories (<=60 ops, 1..5 users) recorded from the real code are accepted only if Auth.tla's actions reproduce every result and database projection.",
  "note": "Trusts: the reference model in Auth.tla as the reading of the property; the uid/token-to-integer abstraction and clock-by-expiry-rewrite (unit 10^6 s) in the harness; Argon2; Argon2-bound non-discovering edges are sampled; token randomness quality not decided (format + distinctness only).",
  "ref": "DESIGN.md section 5 C17",
 },
 "C19": {
  "bins": ["blacklist"], "specs": ["server"],
  "level": "model_checking",
  "technique": "TLA+ model of the blacklist decision points (accept-time condition, per-handler checks, cache) checked by TLC; TLC-generated decision vectors replayed against the real humphrey server binary with clients bound to chosen source addresses; recorded sessions trace-validated by TLC",
  "text": "TLC explores the decision-point state machine (connection condition, file/directory/proxy/redirect handler checks, cache, two concurrent connections) against Decide(mode, list, peer, xff, route) with invariants, action and liveness properties, sensitivity configs for 10 deviations and 4 reachability witnesses; every TLC-enumerated row (mode x list x peer x X-Forwarded-For shape x route type x cache state) is sent to the real server binary built from the working tree on 127.0.0.1, ::1 and dual-stack ::, and random keep-alive sessions are validated by Trace_Blacklist.",
  "note": "Trusts: Decide as the reading of the property (only GET to routed targets; a listed intermediate X-Forwarded-For entry may be 403 or served); Linux loopback source-address binding; a server hang is a tool error, not a violation.",
  "ref": "DESIGN.md section 5 C19",
 },
 "C02": {
  "bins": ["httpreq"], "tokio_bins": ["httpreq"], "specs": ["http"],
  "level": "model_checking",
  "technique": "TLA+ denotational semantics of HTTP/1.x requests plus a TLC-explored model of Request::from_stream under every read segmentation and of the serialiser; TLC-enumerated requests replayed on the sync and tokio parsers under all read plans with round trip; large random requests recorded from the code validated by TLC",
  "text": "TLC checks Denote(Render(r))=Norm(r) and the canonical fixed point on the generated request space, shows that the parser model returns the denotation and consumes exactly the request under all segmentations and BufReader capacities (with termination), and that serialise+parse preserves request equality for any stable field order; each generated request is parsed by both real parsers under up to 184 read plans (all-at-once, bytewise, every split point, fixed and random, Poll::Pending on tokio), compared field by field and round-tripped; recorded random requests (0..40 fields, 64 KiB bodies, cookies, X-Forwarded-For with garbage) are re-derived by TLC (Trace_HttpReq).",
  "note": "Trusts: the reading in HttpReqSyntax.tla (DESIGN 5a; None body = empty body; addresses compared as canonical text); the harness projection observe/diff; fnv64 for large payloads. Nine deviation configs must each be refuted. A request with zero headers serialises with one extra CRLF: the re-parsed request is equal (what the property states); counted in the evidence, not a violation.",
  "ref": "DESIGN.md section 5 C02",
 },
 "C03": {
  "bins": ["parsefuzz"], "tokio_bins": ["parsefuzz"], "specs": ["mutants"],
  "level": "exploration",
  "technique": "TLA+ definition of the parser input families enumerated by TLC and replayed into isolated worker processes (RLIMIT_AS, counting allocator, catch_unwind, watchdog, 2 MiB stack) for six parser entry points plus the tokio request parser; every recorded call judged by TLC with ParseGuard (Trace_Mutants); supervisor/worker attribution protocol model-checked (ParseSup)",
  "text": "Bounded-exhaustive short strings over per-parser protocol alphabets, every prefix of every seed message, single-site structure-aware mutants (length fields at boundary/huge values, delimiters removed or doubled, multi-byte and invalid UTF-8 at every position, nesting 1..400 and beyond) are defined in Mutants.tla, enumerated by TLC and run, all-at-once and byte-by-byte, through the HTTP request (sync+tokio) and response parsers, the WebSocket frame and message decoders, the JSON parser and the configuration parser in a supervised worker; seeded random inputs are added; every call must return ok/err with peak allocation <= 1024*(len+64 KiB).",
  "note": "The spec is thin by design (DESIGN 8): it defines the input families and the guard, not the parsers' memory behaviour. Trusts the worker's observation (allocator counts, RLIMIT_AS 1 GiB, watchdog) and the supervisor's attribution, whose protocol is model-checked. Self-tests with a misbehaving stand-in parser and corrupted logs run on every check.",
  "ref": "DESIGN.md section 5 C03",
 },
 "C04": {
  "bins": ["routing"], "tokio_bins": ["routing"], "specs": ["routing"],
  "level": "model_checking",
  "technique": "TLA+ model of the dispatcher (one action per find step of get_handler / call_websocket_handler) checked by TLC against the denotational Route/WsRoute; TLC-generated (app, request, expected handler) vectors replayed on real Apps over loopback on both runtimes; random full-width apps trace-validated by TLC",
  "text": "TLC proves AlgoCorrect (the stepwise dispatcher ends with the property's Route/WsRoute result), termination and the independence facts (removing a non-chosen route or another host, appending routes/hosts, HTTP vs WebSocket route kinds) over apps with <=2 hosts x <=3 routes from a pattern catalogue x Host values x paths x query forms, refuting nine deviations (last route, last host, next host on miss, no default after host match, match with query, host equality, port ignored, WebSocket using HTTP routes, pre-repair matcher); every vector is sent as real requests (GET keep-alive, POST, HTTP/1.0, OPTIONS, WebSocket upgrade) to a real App built through the public registration API, and random apps of the property's full width (0..4 hosts x 0..6 routes) are validated by Trace_Routing.",
  "note": "Trusts: Route/WsRoute in Routing.tla as the reading of the property (host matched but no route falls through to the default app; Host with port matched literally; a WebSocket miss is no bytes or any non-101 answer); Match copied from spec/glob (the check refuses to run if the copies differ).",
  "ref": "DESIGN.md section 5 C04",
 },
 "C05": {
  "bins": ["glob"], "specs": ["glob"],
  "level": "model_checking",
  "technique": "TLA+ model of the matcher loop checked by TLC against the denotational Match; TLC-generated (pattern,text) vectors replayed on wildcard_match; random pairs trace-validated by TLC",
  "text": "TLC explores the algorithm model (one action per loop iteration) for every pattern<=6 x text<=8 over {*,a,b}/{a,b} and proves termination with the denotational answer; the same exhaustive pair space is replayed on the real matcher under four character mappings and two entry points, and random long pairs recorded from the real code are validated by TLC.",
  "note": "Trusts: Match(p,t) in spec/glob/Glob.tla as the reading of the property; the symbol mappings as representative of 'any other character'; TLC.",
  "ref": "DESIGN.md section 5 C05",
 },
}
