//! Shared helpers for the tokio-runtime conformance harness (same util module as ../harness).
#[path = "../../harness/src/util.rs"]
pub mod util;
