//! C06 conformance, tokio runtime: humphrey::tokio::handlers::{serve_dir, serve_as_file_path, serve_file} (humphrey
//! built with feature "tokio") called in-process on a current-thread runtime.  Everything else is shared with
//! the threaded bin (harness/src/bin/staticfs_common).
use hvt::util as hutil;
#[path = "../../../harness/src/bin/staticfs_common/mod.rs"]
mod common;

use common::{leak, Backend};
use humphrey::handler_traits::{PathAwareRequestHandler, RequestHandler};
use humphrey::handlers::{serve_as_file_path, serve_dir, serve_file};
use humphrey::http::{Request, Response};
use std::sync::Arc;

struct Async {
    rt: tokio::runtime::Runtime,
    sd: Box<dyn PathAwareRequestHandler<()>>,
    sd_slash: Box<dyn PathAwareRequestHandler<()>>,
    fp: Box<dyn RequestHandler<()>>,
    fp_slash: Box<dyn RequestHandler<()>>,
    dir: &'static str,
    unit: Arc<()>,
}

impl Backend for Async {
    fn new(dir: &str) -> Self {
        let d = leak(dir.to_string());
        let ds = leak(format!("{}/", dir));
        Async {
            rt: tokio::runtime::Builder::new_current_thread().enable_all().build().expect("runtime"),
            sd: Box::new(serve_dir::<()>(d)),
            sd_slash: Box::new(serve_dir::<()>(ds)),
            fp: Box::new(serve_as_file_path::<()>(d)),
            fp_slash: Box::new(serve_as_file_path::<()>(ds)),
            dir: d,
            unit: Arc::new(()),
        }
    }
    fn handlers() -> &'static [&'static str] {
        &["serve_dir", "file_path", "serve_file"]
    }
    fn parse(&self, wire: &[u8]) -> Option<Request> {
        let mut r: &[u8] = wire;
        self.rt.block_on(Request::from_stream(&mut r, "127.0.0.1:4242".parse().unwrap())).ok()
    }
    fn call(&self, h: &str, route: &str, req: Request, alt: bool) -> Response {
        let route: &'static str = leak_route(route);
        let fut = match h {
            "serve_dir" => if alt { self.sd_slash.serve(req, self.unit.clone(), route) } else { self.sd.serve(req, self.unit.clone(), route) },
            "serve_file" => RequestHandler::<()>::serve(&serve_file::<()>(leak(format!("{}/{}", self.dir, route))), req, self.unit.clone()),
            _ => if alt { self.fp_slash.serve(req, self.unit.clone()) } else { self.fp.serve(req, self.unit.clone()) },
        };
        self.rt.block_on(fut)
    }
}

/// routes are `&'static str` in the tokio API; intern the few distinct ones
fn leak_route(r: &str) -> &'static str {
    use std::collections::HashMap;
    use std::sync::Mutex;
    static TABLE: Mutex<Option<HashMap<String, &'static str>>> = Mutex::new(None);
    let mut g = TABLE.lock().unwrap();
    let t = g.get_or_insert_with(HashMap::new);
    if let Some(s) = t.get(r) { return s; }
    let s = leak(r.to_string());
    t.insert(r.to_string(), s);
    s
}

fn main() {
    common::main_with::<Async>();
}
