//! C01 (CORS part) conformance, tokio runtime: the same vectors / random builder sequences as
//! harness/src/bin/cors.rs against humphrey built with feature "tokio" (humphrey/src/tokio/app.rs has its own copy
//! of client_handler and get_handler; route.rs and http/cors.rs are shared; handlers are async; there is no
//! App::with_default_subapp, so vectors containing `defsub` are skipped and never generated at random).
//! Each app runs `App::run` on its own current-thread runtime in a thread and is stopped through
//! App::with_shutdown (a CancellationToken). Usage and output are those of the threaded bin.
use hvt::util;
#[path = "../../../harness/src/bin/cors_common/mod.rs"]
mod common;

use common::{build_cors, free_port, handler_response, Call, Server};
use humphrey::http::Request;
use humphrey::monitor::event::{Event, EventType};
use humphrey::monitor::MonitorConfig;
use humphrey::{App, SubApp};
use std::net::{SocketAddr, TcpStream};
use std::sync::Arc;
use std::thread::{self, JoinHandle};
use std::time::{Duration, Instant};

fn sub_route(sub: SubApp<()>, p: &str, hk: String, at: usize) -> SubApp<()> {
    match at % 3 {
        0 => sub.with_route(p, move |_r: Request, _s: Arc<()>| {
            let hk = hk.clone();
            async move { handler_response(&hk, at) }
        }),
        1 => sub.with_stateless_route(p, move |_r: Request| {
            let hk = hk.clone();
            async move { handler_response(&hk, at) }
        }),
        _ => {
            let leaked: &'static str = Box::leak(p.to_string().into_boxed_str());
            sub.with_path_aware_route(leaked, move |_r: Request, _s: Arc<()>, _route: &'static str| {
                let hk = hk.clone();
                async move { handler_response(&hk, at) }
            })
        }
    }
}
fn app_route(app: App<()>, p: &str, hk: String, at: usize) -> App<()> {
    match at % 3 {
        0 => app.with_route(p, move |_r: Request, _s: Arc<()>| {
            let hk = hk.clone();
            async move { handler_response(&hk, at) }
        }),
        1 => app.with_stateless_route(p, move |_r: Request| {
            let hk = hk.clone();
            async move { handler_response(&hk, at) }
        }),
        _ => {
            let leaked: &'static str = Box::leak(p.to_string().into_boxed_str());
            app.with_path_aware_route(leaked, move |_r: Request, _s: Arc<()>, _route: &'static str| {
                let hk = hk.clone();
                async move { handler_response(&hk, at) }
            })
        }
    }
}

fn build(calls: &[Call]) -> Result<App<()>, String> {
    let mut app: App<()> = App::new_with_config(());
    let mut pend: Option<SubApp<()>> = None;
    for (i, c) in calls.iter().enumerate() {
        let at = i + 1;
        match c.op.as_str() {
            "route" => app = app_route(app, &c.pat, c.hk.clone(), at),
            "cors" => app = app.with_cors(build_cors(&c.cors, at)),
            "config" => app = app.with_cors_config(&c.pat, build_cors(&c.cors, at)),
            "subnew" => {
                if pend.is_some() {
                    return Err(format!("call {}: a sub-app is already under construction", at));
                }
                pend = Some(if at % 2 == 0 { SubApp::new() } else { SubApp::default() });
            }
            "subroute" | "subcors" | "subconfig" | "host" => {
                let sub = pend.take().ok_or_else(|| format!("call {}: no sub-app under construction", at))?;
                match c.op.as_str() {
                    "subroute" => pend = Some(sub_route(sub, &c.pat, c.hk.clone(), at)),
                    "subcors" => pend = Some(sub.with_cors(build_cors(&c.cors, at))),
                    "subconfig" => pend = Some(sub.with_cors_config(&c.pat, build_cors(&c.cors, at))),
                    _ => app = app.with_host(&c.hp, sub),
                }
            }
            other => return Err(format!("call {}: builder call {} does not exist on the tokio App", at, other)),
        }
    }
    Ok(app)
}

/// `tokio_util` is not a direct dependency of this crate: the token type is inferred from `with_shutdown`.
fn token_pair<T: Default + Clone>() -> (T, T) {
    let t = T::default();
    (t.clone(), t)
}

struct Running {
    port: u16,
    cancel: Box<dyn FnOnce() + Send>,
    handle: JoinHandle<bool>,
}

impl Server for Running {
    const FULL_API: bool = false;

    fn start(calls: &[Call]) -> Result<Self, String> {
        for _attempt in 0..8 {
            let port = free_port();
            let (mtx, mrx) = std::sync::mpsc::channel::<Event>();
            let (for_app, for_us) = token_pair();
            let app = build(calls)?
                .with_shutdown(for_app)
                .with_monitor(MonitorConfig::new(mtx).with_subscription_to(EventType::ConnectionSuccess));
            let addr = format!("127.0.0.1:{}", port);
            let handle = thread::spawn(move || {
                let rt = match tokio::runtime::Builder::new_current_thread().enable_all().build() {
                    Ok(rt) => rt,
                    Err(_) => return false,
                };
                rt.block_on(app.run(addr)).is_ok()
            });
            let cancel: Box<dyn FnOnce() + Send> = Box::new(move || for_us.cancel());
            let deadline = Instant::now() + Duration::from_secs(15);
            let sa: SocketAddr = format!("127.0.0.1:{}", port).parse().unwrap();
            let mut ok = false;
            // Ready means: OUR app reported (MonitorConfig, ConnectionSuccess) that it accepted OUR probe connection.
            'wait: while Instant::now() < deadline {
                if handle.is_finished() {
                    break;
                }
                match TcpStream::connect_timeout(&sa, Duration::from_millis(500)) {
                    Ok(probe) => {
                        let me = probe.local_addr().ok();
                        let until = Instant::now() + Duration::from_secs(5);
                        while Instant::now() < until {
                            match mrx.recv_timeout(Duration::from_millis(20)) {
                                Ok(ev) => {
                                    if ev.kind == EventType::ConnectionSuccess && ev.peer.is_some() && ev.peer == me {
                                        ok = true;
                                        break 'wait;
                                    }
                                }
                                Err(_) => {
                                    if handle.is_finished() {
                                        break 'wait;
                                    }
                                }
                            }
                        }
                        break;
                    }
                    Err(_) => thread::sleep(Duration::from_millis(1)),
                }
            }
            drop(mrx);
            if ok {
                return Ok(Running { port, cancel, handle });
            }
            cancel();
        }
        Err("could not start the app on a loopback port".into())
    }

    fn port(&self) -> u16 {
        self.port
    }

    fn stop(self) -> bool {
        (self.cancel)();
        let deadline = Instant::now() + Duration::from_secs(10);
        while !self.handle.is_finished() && Instant::now() < deadline {
            thread::sleep(Duration::from_millis(1));
        }
        if self.handle.is_finished() {
            let _ = self.handle.join();
            true
        } else {
            false
        }
    }
}

fn main() {
    common::run_main::<Running>();
}
