//! C02 conformance, tokio runtime: the async twin of Request::from_stream (humphrey built with feature
//! "tokio") over a scripted `AsyncRead`.  Shares everything else with the threaded bin.
use hvt::util as hutil;
#[path = "../../../harness/src/bin/httpreq_common/mod.rs"]
mod common;

use common::{Parser, Plan};
use humphrey::http::Request;
use std::net::SocketAddr;
use std::panic::{catch_unwind, AssertUnwindSafe};
use std::pin::Pin;
use std::task::{Context, Poll};
use tokio::io::{AsyncRead, ReadBuf};

/// Serves `data` segment by segment; with `pending` it answers Poll::Pending (after waking itself) once before
/// every segment, so the parser's futures are re-polled in the middle of lines and bodies.
struct Scripted<'a> {
    data: &'a [u8],
    chunks: &'a [usize],
    ci: usize,
    left: usize,
    pos: usize,
    pending: bool,
    armed: bool,
}

impl<'a> AsyncRead for Scripted<'a> {
    fn poll_read(mut self: Pin<&mut Self>, cx: &mut Context<'_>, buf: &mut ReadBuf<'_>) -> Poll<std::io::Result<()>> {
        let me = &mut *self;
        while me.left == 0 && me.ci < me.chunks.len() {
            me.left = me.chunks[me.ci];
            me.ci += 1;
            me.armed = me.pending;
        }
        if me.armed && me.left > 0 {
            me.armed = false;
            cx.waker().wake_by_ref();
            return Poll::Pending;
        }
        let n = me.left.min(buf.remaining()).min(me.data.len() - me.pos);
        buf.put_slice(&me.data[me.pos..me.pos + n]);
        me.pos += n;
        me.left -= n;
        Poll::Ready(Ok(()))
    }
}

struct TokioParser {
    rt: tokio::runtime::Runtime,
}

impl Parser for TokioParser {
    fn parse(&self, data: &[u8], plan: &Plan, peer: SocketAddr) -> (Result<Request, String>, usize) {
        let mut rd = Scripted { data, chunks: &plan.chunks, ci: 0, left: 0, pos: 0, pending: plan.pending, armed: false };
        let res = catch_unwind(AssertUnwindSafe(|| self.rt.block_on(Request::from_stream(&mut rd, peer))));
        let r = match res {
            Ok(Ok(r)) => Ok(r),
            Ok(Err(e)) => Err(format!("Err({:?})", e)),
            Err(_) => Err("panic".to_string()),
        };
        (r, rd.pos)
    }
    fn runtime(&self) -> &'static str { "tokio" }
}

fn main() {
    hutil::quiet_panics();
    let rt = tokio::runtime::Builder::new_current_thread().build().expect("runtime");
    common::main_with(&TokioParser { rt });
}
