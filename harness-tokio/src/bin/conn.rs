//! C01 conformance, tokio runtime: a real humphrey (feature "tokio") App on loopback driven by the
//! shared blocking client (../harness/src/connlib.rs) from ordinary threads.
use hvt::util;
use hvt::util::*;
#[path = "../../../harness/src/connlib.rs"]
mod connlib;
use humphrey::http::cors::Cors;
use humphrey::http::{Request, Response, StatusCode};
use humphrey::App;
use std::net::{SocketAddr, TcpListener, TcpStream};
use std::sync::{Arc, Mutex};
use std::time::Duration;

fn free_port() -> u16 { TcpListener::bind("127.0.0.1:0").unwrap().local_addr().unwrap().port() }

fn start() -> (SocketAddr, connlib::Mon) {
    let (moncfg, mon) = connlib::mon_new();
    let port = free_port();
    let addr: SocketAddr = format!("127.0.0.1:{}", port).parse().unwrap();
    std::thread::spawn(move || {
        let rt = tokio::runtime::Builder::new_multi_thread().worker_threads(4).enable_all().build().unwrap();
        rt.block_on(async move {
            let app: App<()> = App::new()
                .with_stateless_route("/plain", |_r: Request| async { Response::new(StatusCode::OK, "plain") })
                .with_stateless_route("/cors", |_r: Request| async { Response::new(StatusCode::OK, "cors") })
                .with_stateless_route("/echo", |r: Request| async move { Response::new(StatusCode::OK, r.content.unwrap_or_default()) })
                .with_stateless_route("/empty", |_r: Request| async { Response::empty(StatusCode::OK) })
                .with_stateless_route("/panic", |_r: Request| async { if true { panic!("handler panic (scripted)") } Response::empty(StatusCode::OK) })
                .with_cors_config("/cors", Cors::wildcard())
                .with_monitor(moncfg);
            let _ = app.run(addr).await;
        });
    });
    for _ in 0..200 { if TcpStream::connect(addr).is_ok() { return (addr, mon); } std::thread::sleep(Duration::from_millis(10)); }
    panic!("app did not start");
}

fn main() {
    quiet_panics();
    let seed = seed_from_env();
    let (addr, mon) = start();
    let jobs: Vec<connlib::Job> = stdin_lines().filter_map(|l| serde_json::from_str::<serde_json::Value>(&l).ok()).map(|v| connlib::parse_job(&v)).collect();
    let queue = Arc::new(Mutex::new(jobs.into_iter().rev().collect::<Vec<_>>()));
    let par: usize = std::env::args().nth(1).and_then(|s| s.parse().ok()).unwrap_or(24);
    let mut hs = vec![];
    for _ in 0..par {
        let q = queue.clone();
        let mon = mon.clone();
        hs.push(std::thread::spawn(move || loop {
            let job = { q.lock().unwrap().pop() };
            let job = match job { Some(j) => j, None => break };
            let rec = connlib::run_job(&job, addr, seed, Some(&mon));
            util::out_line(&rec);
        }));
    }
    for h in hs { let _ = h.join(); }
    std::process::exit(0);
}
