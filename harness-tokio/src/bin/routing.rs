//! C04 conformance, tokio runtime: the same vectors / random apps as harness/src/bin/routing.rs against humphrey
//! built with feature "tokio" (humphrey/src/tokio/app.rs has its own copy of get_handler and
//! call_websocket_handler; handlers are async). Each app runs `App::run` on its own current-thread runtime in a
//! thread; it is stopped by dropping that runtime (select! against a oneshot), which closes the listener.
//! Usage and output are those of the threaded bin.
use hvt::util;
#[path = "../../../harness/src/bin/routing_common/mod.rs"]
mod common;

use common::{free_port, ident, Op, Server, SubOp};
use humphrey::http::{Request, Response, StatusCode};
use humphrey::monitor::event::{Event, EventType};
use humphrey::monitor::MonitorConfig;
use humphrey::stream::Stream;
use humphrey::{App, SubApp};
use std::net::{SocketAddr, TcpStream};
use std::sync::Arc;
use std::thread::{self, JoinHandle};
use std::time::{Duration, Instant};
use tokio::io::AsyncWriteExt;
use tokio::sync::oneshot;

fn sub_http(sub: SubApp<()>, p: &str, id: String, which: usize) -> SubApp<()> {
    match which % 3 {
        0 => sub.with_route(p, move |_r: Request, _s: Arc<()>| {
            let id = id.clone();
            async move { Response::new(StatusCode::OK, id.as_bytes()) }
        }),
        1 => sub.with_stateless_route(p, move |_r: Request| {
            let id = id.clone();
            async move { Response::new(StatusCode::OK, id.as_bytes()) }
        }),
        _ => {
            let leaked: &'static str = Box::leak(p.to_string().into_boxed_str());
            sub.with_path_aware_route(leaked, move |_r: Request, _s: Arc<()>, _route: &'static str| {
                let id = id.clone();
                async move { Response::new(StatusCode::OK, id.as_bytes()) }
            })
        }
    }
}

fn sub_ws(sub: SubApp<()>, p: &str, id: String) -> SubApp<()> {
    sub.with_websocket_route(p, move |_r: Request, mut stream: Stream, _s: Arc<()>| {
        let id = id.clone();
        async move {
            let _ = stream.write_all(id.as_bytes()).await;
            let _ = stream.flush().await;
            let _ = stream.shutdown().await;
        }
    })
}

fn build(ops: &[Op], tag: &str) -> App<()> {
    let mut app: App<()> = App::new_with_config(());
    let (mut dh, mut dw, mut nh) = (0usize, 0usize, 0usize);
    for op in ops {
        match op {
            Op::Route(p) => {
                dh += 1;
                let id = ident(tag, 0, dh, "http");
                app = match dh % 3 {
                    0 => app.with_route(p, move |_r: Request, _s: Arc<()>| {
                        let id = id.clone();
                        async move { Response::new(StatusCode::OK, id.as_bytes()) }
                    }),
                    1 => app.with_stateless_route(p, move |_r: Request| {
                        let id = id.clone();
                        async move { Response::new(StatusCode::OK, id.as_bytes()) }
                    }),
                    _ => {
                        let leaked: &'static str = Box::leak(p.to_string().into_boxed_str());
                        app.with_path_aware_route(leaked, move |_r: Request, _s: Arc<()>, _route: &'static str| {
                            let id = id.clone();
                            async move { Response::new(StatusCode::OK, id.as_bytes()) }
                        })
                    }
                };
            }
            Op::Ws(p) => {
                dw += 1;
                let id = ident(tag, 0, dw, "ws");
                app = app.with_websocket_route(p, move |_r: Request, mut stream: Stream, _s: Arc<()>| {
                    let id = id.clone();
                    async move {
                        let _ = stream.write_all(id.as_bytes()).await;
                        let _ = stream.flush().await;
                        let _ = stream.shutdown().await;
                    }
                });
            }
            Op::DefSub(_) | Op::WsAll => unreachable!("not generated for the tokio App"),
            Op::Host(h, subops) => {
                nh += 1;
                let mut sub: SubApp<()> = SubApp::new();
                let (mut sh, mut sw) = (0usize, 0usize);
                for so in subops {
                    match so {
                        SubOp::Route(p) => {
                            sh += 1;
                            sub = sub_http(sub, p, ident(tag, nh, sh, "http"), sh + nh);
                        }
                        SubOp::Ws(p) => {
                            sw += 1;
                            sub = sub_ws(sub, p, ident(tag, nh, sw, "ws"));
                        }
                    }
                }
                app = app.with_host(h, sub);
            }
        }
    }
    app
}

struct Running {
    port: u16,
    tx: oneshot::Sender<()>,
    handle: JoinHandle<bool>,
}

impl Server for Running {
    const FULL_API: bool = false; // the tokio App has neither with_default_subapp nor with_websocket_handler

    fn start(ops: &[Op], tag: &str) -> Result<Self, String> {
        for _attempt in 0..8 {
            let port = free_port();
            let (mtx, mrx) = std::sync::mpsc::channel::<Event>();
            let app = build(ops, tag).with_monitor(monitor_for(mtx));
            let addr = format!("127.0.0.1:{}", port);
            let (tx, rx) = oneshot::channel::<()>();
            let handle = thread::spawn(move || {
                let rt = match tokio::runtime::Builder::new_current_thread().enable_all().build() {
                    Ok(rt) => rt,
                    Err(_) => return false,
                };
                // true: stopped on request; false: App::run returned by itself (bind error)
                rt.block_on(async move {
                    tokio::select! {
                        r = app.run(addr) => { let _ = r.is_ok(); false }
                        _ = rx => true,
                    }
                })
            });
            let deadline = Instant::now() + Duration::from_secs(15);
            let sa: SocketAddr = format!("127.0.0.1:{}", port).parse().unwrap();
            let mut ok = false;
            // Ready means: OUR app listens on the port. A successful connect alone proves nothing (when the port was
            // taken between free_port() and the bind inside App::run, the connect reaches somebody else's listener while
            // our thread has not failed yet). Confirmation, whichever comes first:
            //  - the app reports (MonitorConfig, ConnectionSuccess) that it accepted OUR probe connection, or
            //  - the listening socket on the port belongs to this process (/proc) - monitor events are not part of the
            //    property, an app that reports none must still be testable; ports are unique inside the process.
            'wait: while Instant::now() < deadline {
                if handle.is_finished() {
                    break; // bind failed (port taken in between): try another port
                }
                match TcpStream::connect_timeout(&sa, Duration::from_millis(500)) {
                    Ok(probe) => {
                        let me = probe.local_addr().ok();
                        let quiet = common::NO_EVENT_STARTS.load(std::sync::atomic::Ordering::Relaxed) >= 3;
                        let until = Instant::now() + Duration::from_secs(5);
                        let mut polls = 0;
                        while Instant::now() < until {
                            match mrx.recv_timeout(Duration::from_millis(20)) {
                                Ok(ev) => {
                                    if ev.kind == EventType::ConnectionSuccess && ev.peer.is_some() && ev.peer == me {
                                        ok = true;
                                        break 'wait;
                                    }
                                }
                                Err(_) => {
                                    if handle.is_finished() {
                                        break 'wait;
                                    }
                                    polls += 1;
                                    // no event (yet): after 0.5 s (at once, when this build has shown that it sends none)
                                    // look the listener up instead
                                    if (quiet || polls >= 25) && polls % 5 == 0 && common::listener_is_ours(port) {
                                        common::NO_EVENT_STARTS.fetch_add(1, std::sync::atomic::Ordering::Relaxed);
                                        ok = true;
                                        break 'wait;
                                    }
                                }
                            }
                        }
                        break; // connected, but not to our app
                    }
                    Err(_) => thread::sleep(Duration::from_millis(1)),
                }
            }
            drop(mrx);
            if ok {
                return Ok(Running { port, tx, handle });
            }
            drop(tx);
            common::release_port(port);
        }
        Err("could not start the app on a loopback port".into())
    }

    fn port(&self) -> u16 {
        self.port
    }

    fn stop(self) -> bool {
        let _ = self.tx.send(());
        let deadline = Instant::now() + Duration::from_secs(10);
        while !self.handle.is_finished() && Instant::now() < deadline {
            thread::sleep(Duration::from_millis(1));
        }
        if self.handle.is_finished() {
            let _ = self.handle.join();
            common::release_port(self.port);
            true
        } else {
            false
        }
    }
}

/// ROUTING_NO_MONITOR=1 (self-test of the harness): subscribe to nothing, as if the app reported no events.
fn monitor_for(mtx: std::sync::mpsc::Sender<Event>) -> MonitorConfig {
    if std::env::var("ROUTING_NO_MONITOR").is_ok() {
        MonitorConfig::new(mtx)
    } else {
        MonitorConfig::new(mtx).with_subscription_to(EventType::ConnectionSuccess)
    }
}

fn main() {
    common::run_main::<Running>();
}
