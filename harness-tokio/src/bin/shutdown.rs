//! C20 conformance harness, tokio runtime: the real `humphrey::App` (feature "tokio") with a
//! CancellationToken (`App::with_shutdown`), `run` awaited by `block_on` in a thread of this process on a
//! multi-thread runtime with `nw` workers; same scenario scripts, clients and log as the threaded twin.
//!
//!   shutdown matrix <n> | races | replay      (see ../../../harness/src/bin/shutdown/common.rs)
mod util_reexport {
    pub use hvt::util::*;
}
#[path = "../../../harness/src/bin/shutdown/common.rs"]
mod common;
use common::*;

use humphrey::http::{Request, Response, StatusCode};
use humphrey::stream::Stream;
use humphrey::App;
use std::sync::Arc;
use tokio::io::AsyncReadExt;

struct St(Arc<Ctx>);

async fn handler(req: Request, st: Arc<St>) -> Response {
    let (c, m) = parse_query(&req.query);
    let th = format!("hdl{}", c);
    st.0.record("H_Read", &th, c, 0, "");
    if m == "L" {
        // a handler that blocks its runtime worker thread ("fully occupied" runtime)
        st.0.wait_finish(c);
    } else if m == "l" {
        while !st.0.may_finish(c) {
            tokio::time::sleep(std::time::Duration::from_millis(2)).await;
        }
    }
    let body = body_for(c, &m);
    st.0.record("H_Finish", &th, c, 0, "");
    Response::new(StatusCode::OK, body)
}

async fn ws_handler(req: Request, mut stream: Stream, st: Arc<St>) {
    let (c, _) = parse_query(&req.query);
    st.0.record("H_Read", &format!("hdl{}", c), c, 0, "ws");
    let mut buf = [0u8; 256];
    loop {
        match stream.read(&mut buf).await {
            Ok(0) | Err(_) => break,
            Ok(_) => {}
        }
    }
}

/// `tokio_util` is not a direct dependency of this crate: the token type is inferred from `with_shutdown`.
fn token_pair<T: Default + Clone>() -> (T, T) {
    let t = T::default();
    (t.clone(), t)
}

fn start(cfg: &Cfg, ctx: Arc<Ctx>, port: u16) -> Server {
    let (for_app, for_us) = token_pair();
    let app: App<St> = App::new_with_config(St(ctx.clone()))
        .with_shutdown(for_app)
        .with_route("/h", handler)
        .with_websocket_route("/w", ws_handler);
    let addr = if cfg.bind.contains(':') { format!("[{}]:{}", cfg.bind, port) } else { format!("{}:{}", cfg.bind, port) };
    let ctx2 = ctx.clone();
    let nw = cfg.nw;
    let bind = cfg.bind.clone();
    let current = cfg.flavor == "current";
    std::thread::spawn(move || {
        let rt = if current {
            tokio::runtime::Builder::new_current_thread().enable_all().build().expect("runtime")
        } else {
            tokio::runtime::Builder::new_multi_thread().worker_threads(nw).enable_all().build().expect("runtime")
        };
        let r = std::panic::catch_unwind(std::panic::AssertUnwindSafe(|| rt.block_on(app.run(addr)).is_ok()));
        // Run_Return, then the same address is bound again at once
        after_return(&ctx2, &bind, port, matches!(r, Ok(true)));
        // the process and its runtime stay alive after run has returned: in-flight tasks go on.  A current_thread
        // runtime only runs its tasks while somebody blocks on it.
        if current {
            rt.block_on(std::future::pending::<()>());
        }
        std::mem::forget(rt);
    });
    let tok = for_us;
    Server {
        signal: Box::new(move || {
            tok.cancel(); // idempotent: a second cancel is a no-op
        }),
    }
}

fn main() {
    main_with("tokio", start);
}
