//! C03 harness, tokio twin: the worker process of `parsefuzz` for the tokio copy of the HTTP request parser
//! (humphrey built with feature "tokio": `Request::from_stream` is an async fn over AsyncRead).
//!
//! Only the worker side lives here (`parsefuzz worker ...`, `parsefuzz probe ...`); the supervisor is the one in
//! /verif/harness (`parsefuzz run --worker-exe <this binary> --only-parser req --as-parser reqtk`).  The
//! allocator, panic capture, watchdog and record format are the same source file as the threaded harness.
#[path = "../../../harness/src/bin/parsefuzz/worker.rs"]
mod worker;

use std::pin::Pin;
use std::task::{Context, Poll};

/// Scripted AsyncRead: `step == 0` hands out as much as the buffer takes, otherwise at most `step` bytes per
/// poll_read; after the data: EOF.  Always ready (what is tested is the parser, not the reactor).
struct AsyncScript<'a> {
    data: &'a [u8],
    pos: usize,
    step: usize,
}

impl tokio::io::AsyncRead for AsyncScript<'_> {
    fn poll_read(mut self: Pin<&mut Self>, _cx: &mut Context<'_>, buf: &mut tokio::io::ReadBuf<'_>) -> Poll<std::io::Result<()>> {
        let mut n = buf.remaining().min(self.data.len() - self.pos);
        if self.step > 0 {
            n = n.min(self.step);
        }
        let (a, b) = (self.pos, self.pos + n);
        buf.put_slice(&self.data[a..b]);
        self.pos = b;
        Poll::Ready(Ok(()))
    }
}

thread_local! {
    static RT: tokio::runtime::Runtime = tokio::runtime::Builder::new_current_thread().build().expect("runtime");
}

fn run_parser(p: &str, d: &str, bytes: &[u8]) -> (&'static str, &'static str) {
    let step = if d == "b" { 1 } else { 0 };
    match p {
        "reqtk" | "req" => {
            let mut s = AsyncScript { data: bytes, pos: 0, step };
            let addr = std::net::SocketAddr::from(([127, 0, 0, 1], 4321));
            let r = RT.with(|rt| rt.block_on(humphrey::http::Request::from_stream(&mut s, addr)));
            match r {
                Ok(_) => ("ok", ""),
                Err(_) => ("err", ""),
            }
        }
        _ => ("err", "unknown-parser"),
    }
}

fn main() {
    let args: Vec<String> = std::env::args().skip(1).collect();
    match args.first().map(|s| s.as_str()) {
        Some("worker") => worker::worker(&args[1..], run_parser),
        Some("probe") => {
            worker::install_panic_capture();
            let p = args.get(1).expect("parser").clone();
            let d = args.get(2).expect("delivery").clone();
            let bytes = worker::hex_decode(args.get(3).map(|s| s.as_str()).unwrap_or(""));
            let th = std::thread::Builder::new().stack_size(2048 << 10).spawn(move || {
                let o = worker::measured_call(run_parser, &p, &d, &bytes);
                println!("{}", serde_json::json!({"p": p, "d": d, "o": o.o, "kib": o.kib, "big": o.big, "len": bytes.len(), "cls": o.cls, "at": o.at, "us": o.us}));
            });
            let _ = th.expect("spawn").join();
        }
        _ => {
            eprintln!("usage: parsefuzz worker|probe ... (tokio twin: worker side only)");
            std::process::exit(2);
        }
    }
}
