//! Logging test plugin: behaviour chosen by configuration, every call appended to a log file (one JSON line).
//!
//! keys:  id "<name>"   load "ok" | "nonfatal" | "fatal"   prefix "<uri prefix answered by on_request, empty = never>"
//!        log "<path of the call log>"
//! on_request answers `200` with body `plug:<id>` and header `X-By: <id>` when the URI (without its leading `/`)
//! starts with `prefix`; on_response adds the header `X-Seen-<id>: <n>` where n is the number of `X-Seen-*` headers
//! already present (so the order of application is visible in the response itself).

use humphrey::http::{Request, Response, StatusCode};
use humphrey_server::config::RouteConfig;
use humphrey_server::declare_plugin;
use humphrey_server::plugins::plugin::{Plugin, PluginLoadResult};
use humphrey_server::server::server::AppState;

use std::collections::HashMap;
use std::fs::OpenOptions;
use std::io::Write;
use std::sync::Arc;

#[derive(Debug, Default)]
pub struct LogPlugin {
    id: String,
    name: &'static str,
    prefix: Option<String>,
    log: String,
}

fn esc(s: &str) -> String {
    let mut o = String::new();
    for c in s.chars() {
        match c {
            '"' => o.push_str("\\\""),
            '\\' => o.push_str("\\\\"),
            c if (c as u32) < 0x20 => o.push_str(&format!("\\u{:04x}", c as u32)),
            c => o.push(c),
        }
    }
    o
}

impl LogPlugin {
    fn emit(&self, line: String) {
        if self.log.is_empty() {
            return;
        }
        if let Ok(mut f) = OpenOptions::new().create(true).append(true).open(&self.log) {
            let _ = f.write_all(format!("{}\n", line).as_bytes());
        }
    }
}

impl Plugin for LogPlugin {
    fn name(&self) -> &'static str {
        self.name
    }

    fn on_load(&mut self, config: &HashMap<String, String>, _state: Arc<AppState>) -> PluginLoadResult<(), &'static str> {
        self.id = config.get("id").cloned().unwrap_or_else(|| "?".into());
        self.name = Box::leak(format!("hvplug {}", self.id).into_boxed_str());
        self.prefix = config.get("prefix").cloned().filter(|p| !p.is_empty());
        self.log = config.get("log").cloned().unwrap_or_default();
        let res = config.get("load").cloned().unwrap_or_else(|| "ok".into());
        self.emit(format!("{{\"ev\":\"load\",\"id\":\"{}\",\"res\":\"{}\"}}", esc(&self.id), esc(&res)));
        match res.as_str() {
            "nonfatal" => PluginLoadResult::NonFatal("hvplug: configured to fail (non-fatal)"),
            "fatal" => PluginLoadResult::Fatal("hvplug: configured to fail (fatal)"),
            _ => PluginLoadResult::Ok(()),
        }
    }

    fn on_request(&self, request: &mut Request, _state: Arc<AppState>, _route: &RouteConfig) -> Option<Response> {
        let uri = request.uri.trim_start_matches('/').to_string();
        let ans = self.prefix.as_ref().map(|p| uri.starts_with(p.as_str())).unwrap_or(false);
        self.emit(format!("{{\"ev\":\"request\",\"id\":\"{}\",\"uri\":\"{}\",\"ans\":{}}}", esc(&self.id), esc(&uri), ans));
        if ans {
            Some(Response::new(StatusCode::OK, format!("plug:{}", self.id).into_bytes()).with_header("X-By", &self.id))
        } else {
            None
        }
    }

    fn on_response(&self, response: &mut Response, _state: Arc<AppState>, _route: &RouteConfig) {
        let n = response.headers.iter().filter(|h| h.name.to_string().to_ascii_lowercase().starts_with("x-seen-")).count();
        let by = response.headers.get("X-By").unwrap_or("").to_string();
        let code: u16 = response.status_code.into();
        self.emit(format!("{{\"ev\":\"response\",\"id\":\"{}\",\"status\":{},\"by\":\"{}\",\"n\":{}}}", esc(&self.id), code, esc(&by), n));
        response.headers.add(format!("X-Seen-{}", self.id).as_str(), n.to_string());
    }

    fn on_unload(&mut self) {
        self.emit(format!("{{\"ev\":\"unload\",\"id\":\"{}\"}}", esc(&self.id)));
    }
}

declare_plugin!(LogPlugin, LogPlugin::default);
